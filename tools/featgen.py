#!/usr/bin/env python3
"""featgen.py -- translator for C20: regenerates coq/Generated/Features.v from /repo's current
Cargo.toml ([features], optional dependencies) and the cfg gates / crate-path references of
every src/**/*.rs.

It is approximate by construction (it does not type-check; method-call dependencies are
invisible to it): it is NOT in the trusted base of the verdict -- rustc on all 256 subsets is.
What it adds is the explanation (which site, which gate) and the guarantee that the cfg
structure, not luck, is why the 256 builds succeed.

usage: featgen.py <repo> <out.v> [--json <out.json>]
"""
import sys, re, os, json

FEATURES = ["std", "serde", "json", "toml", "assign", "resolve", "delete", "miette"]
CRATES = ["std", "serde", "serde_json", "toml", "miette"]

# ------------------------------------------------------------------ Cargo.toml

def parse_cargo(path):
    txt = open(path).read()
    sec, feats, deps = None, {}, {}
    for raw in txt.splitlines():
        line = raw.split("#")[0].rstrip() if not re.search(r'"[^"]*#', raw) else raw.rstrip()
        m = re.match(r"^\[(.+)\]\s*$", line.strip())
        if m:
            sec = m.group(1).strip(); continue
        if sec == "features":
            m = re.match(r'^\s*([\w-]+)\s*=\s*\[(.*)\]\s*$', line)
            if m:
                feats[m.group(1)] = re.findall(r'"([^"]+)"', m.group(2))
        elif sec == "dependencies":
            m = re.match(r'^\s*([\w-]+)\s*=\s*(.*)$', line)
            if m:
                deps[m.group(1)] = {"optional": "optional = true" in m.group(2)}
    return feats, deps


def cargo_model(feats, deps):
    """returns (implications: feat -> [feat], enables: crate -> [feat that switches the optional dep on])"""
    uses_dep_syntax = {d for vs in feats.values() for v in vs if v.startswith("dep:") for d in [v[4:]]}
    implies = {f: [] for f in FEATURES}
    enables = {c: [] for c in CRATES}
    for d, info in deps.items():
        if info["optional"] and d not in uses_dep_syntax and d in FEATURES:
            enables.setdefault(d, []).append(d)      # implicit feature of the same name
    for f, vs in feats.items():
        if f not in FEATURES: continue
        for v in vs:
            if v.startswith("dep:"):
                enables.setdefault(v[4:], []).append(f)
            elif "/" in v:
                dep, _ = v.split("/", 1)
                weak = dep.endswith("?")
                dep = dep.rstrip("?")
                if not weak:
                    # "dep/feat" also enables an optional dep and, unless dep: is used, its implicit feature
                    if dep in deps and deps[dep]["optional"]:
                        if dep in FEATURES and dep not in uses_dep_syntax:
                            implies[f].append(dep)
                        else:
                            enables.setdefault(dep, []).append(f)
            elif v in FEATURES:
                implies[f].append(v)
    # std the crate: linked unless #![no_std]; lib.rs has cfg_attr(not(feature = "std"), no_std)
    enables["std"] = ["std"]
    return implies, enables

# ------------------------------------------------------------------ Rust scanning

TOKEN = re.compile(r"""
    (?P<lc>//[^\n]*) |
    (?P<bc>/\*.*?\*/) |
    (?P<rs>r\#*"(?:.|\n)*?"\#*) |
    (?P<s>b?"(?:\\.|[^"\\])*") |
    (?P<ch>b?'(?:\\.[^']*|[^'\\])') |
    (?P<lt>'[A-Za-z_]\w*) |
    (?P<id>[A-Za-z_]\w*) |
    (?P<pp>::) |
    (?P<p>[{}()\[\];#!,=$]) |
    (?P<ws>\s+) |
    (?P<o>.)
""", re.X | re.S)


def tokens(src):
    out, line = [], 1
    for m in TOKEN.finditer(src):
        k, t = m.lastgroup, m.group(0)
        if k not in ("lc", "bc", "ws"):
            out.append((k, t, line))
        line += t.count("\n")
    return out


def parse_cfg(ts, i):
    """ts[i] is the first token inside cfg( ... ); returns (expr, next index after the closing paren)"""
    def expr(i):
        k, t, _ = ts[i]
        if t == "feature":
            assert ts[i + 1][1] == "="
            name = ts[i + 2][1].strip('"')
            return ("feat", name), i + 3
        if t in ("all", "any", "not") and ts[i + 1][1] == "(":
            args, j = [], i + 2
            while ts[j][1] != ")":
                if ts[j][1] == ",": j += 1; continue
                e, j = expr(j); args.append(e)
            return (t, args), j + 1
        # test, doc, debug_assertions, target_os = "..", ...
        j = i + 1
        if j < len(ts) and ts[j][1] == "=": j += 2
        return ("other", t), j
    e, j = expr(i)
    return e, j


def scan_file(path, rel, base_gate, sites, modgates, items):
    ts = tokens(open(path).read())
    stack = []          # (gate, depth0, paren0, opened)
    pending = []
    depth = paren = 0
    i = 0
    n = len(ts)

    def current():
        g = [base_gate] if base_gate else []
        return g + [s[0] for s in stack]

    while i < n:
        k, t, line = ts[i]
        # attributes
        if t == "#" and i + 1 < n and (ts[i + 1][1] == "[" or (ts[i + 1][1] == "!" and i + 2 < n and ts[i + 2][1] == "[")):
            inner = ts[i + 1][1] == "!"
            j = i + (3 if inner else 2)
            name = ts[j][1]
            # find the matching ]
            d, e = 1, j
            while d:
                if ts[e][1] == "[": d += 1
                elif ts[e][1] == "]": d -= 1
                e += 1
            if name == "cfg" and ts[j + 1][1] == "(":
                ex, _ = parse_cfg(ts, j + 2)
                if inner:
                    stack.append((ex, -1, -1, True, True))   # whole file
                else:
                    pending.append(ex)
            elif name == "cfg_attr" and ts[j + 1][1] == "(":
                pass   # conditional attributes gate nothing
            i = e
            continue
        if pending:
            # the next item starts here
            is_item = t in ("impl", "fn", "pub", "mod", "use", "struct", "enum", "type", "const", "static", "trait",
                            "extern", "unsafe", "macro_rules", "async", "union")
            stack.append((("all", pending) if len(pending) > 1 else pending[0], depth, paren, False, is_item))
            pending = []
        # gated items of lib.rs: `pub mod x;`, `pub use x::{A, B};` under a cfg -> pseudo-crates "crate::A"
        if rel == "src/lib.rs" and t in ("mod", "use") and current():
            j = i + 1
            names = []
            while ts[j][1] != ";":
                if ts[j][0] == "id" and ts[j][1] not in ("crate", "self", "super", "as"): names.append(ts[j][1])
                j += 1
            if t == "mod": names = names[:1]
            else: names = names[1:] if len(names) > 1 else names     # drop the module path head
            for nm in names:
                items[nm] = current()
        # module declarations: remember their gate for the file they name
        if t == "mod" and i + 2 < n and ts[i + 1][0] == "id" and ts[i + 2][1] == ";":
            modgates[ts[i + 1][1]] = current()
        # crate-path references:  <crate> ::   not preceded by ::, and `extern crate <crate>`
        if k == "id" and t in CRATES and i + 1 < n and ts[i + 1][0] == "pp" and (i == 0 or ts[i - 1][0] != "pp"):
            sites.append({"file": rel, "line": line, "crate": t, "gate": current()})
        if k == "id" and t == "crate" and i > 0 and ts[i - 1][1] == "extern" and ts[i + 1][1] in CRATES:
            sites.append({"file": rel, "line": line, "crate": ts[i + 1][1], "gate": current()})
        # references to gated in-crate items: crate::X / super::X (lib.rs itself declares them)
        if rel != "src/lib.rs" and k == "id" and t in ("crate", "super") and i + 2 < n and ts[i + 1][0] == "pp" and ts[i + 2][1] in items \
                and (i == 0 or ts[i - 1][1] != "extern"):
            sites.append({"file": rel, "line": line, "crate": "crate::" + ts[i + 2][1], "gate": current()})
        # structure
        if t == "{": depth += 1
        elif t == "}": depth -= 1
        elif t in "([": paren += 1
        elif t in ")]": paren -= 1
        # close gated items
        while stack and stack[-1][1] >= 0:
            g, d0, p0, opened, is_item = stack[-1]
            if t == "{" and depth == d0 + 1 and paren == p0:
                stack[-1] = (g, d0, p0, True, is_item); break
            if (t == "}" and depth == d0 and opened) or (t == ";" and depth == d0 and paren == p0) or depth < d0:
                stack.pop(); continue
            # a gated field / variant / match arm / generic param ends at ',' on its own level
            if t == "," and depth == d0 and paren == p0 and not opened and not is_item:
                stack.pop(); continue
            break
        i += 1


def scan_repo(repo):
    src = os.path.join(repo, "src")
    sites, modgates, items = [], {}, {}
    # lib.rs first: module gates
    scan_file(os.path.join(src, "lib.rs"), "src/lib.rs", None, sites, modgates, items)
    done = {"src/lib.rs"}
    for dp, _, fns in os.walk(src):
        for fn in sorted(fns):
            if not fn.endswith(".rs"): continue
            path = os.path.join(dp, fn)
            rel = os.path.relpath(path, repo)
            if rel in done: continue
            mod = os.path.basename(dp) if fn == "mod.rs" else fn[:-3]
            gates = modgates.get(mod, [])
            base = ("all", gates) if len(gates) > 1 else (gates[0] if gates else None)
            if os.path.basename(dp) != "src" and fn != "mod.rs":
                # nested module: inherits the gate of its parent module file
                pg = modgates.get(os.path.basename(dp), [])
                allg = pg + gates
                base = ("all", allg) if len(allg) > 1 else (allg[0] if allg else None)
            scan_file(path, rel, base, sites, modgates, items)
    return sites, modgates, items

# ------------------------------------------------------------------ Coq output

def coq_cfg(e):
    if e is None: return "CTrue"
    k = e[0]
    if k == "feat":
        return f"CFeat F{e[1]}" if e[1] in FEATURES else "CFalse"   # unknown feature: never set
    if k == "not": return f"CNot ({coq_cfg(e[1][0])})"
    if k in ("all", "any"):
        return ("CAll" if k == "all" else "CAny") + " [" + "; ".join(coq_cfg(x) for x in e[1]) + "]"
    if k == "other":
        return "CFalse" if e[1] == "test" else "CTrue"     # cfg(test) is off in a library build; doc etc. irrelevant
    raise ValueError(e)


def gate_expr(g):
    g = [x for x in g if x is not None]
    if not g: return None
    return g[0] if len(g) == 1 else ("all", g)


def main():
    repo, outv = sys.argv[1], sys.argv[2]
    feats, deps = parse_cargo(os.path.join(repo, "Cargo.toml"))
    implies, enables = cargo_model(feats, deps)
    sites, modgates, items = scan_repo(repo)
    # drop sites that sit under cfg(test)
    def under_test(g):
        def has(e):
            if e is None: return False
            if e[0] == "other": return e[1] == "test"
            if e[0] in ("all",): return any(has(x) for x in e[1])
            return False
        return any(has(x) for x in g)
    live = [s for s in sites if not under_test(s["gate"])]
    # merge identical (crate, gate) pairs, keep the first location and a count
    seen = {}
    for s in live:
        key = (s["crate"], coq_cfg(gate_expr(s["gate"])))
        if key not in seen: seen[key] = dict(s, count=0)
        seen[key]["count"] += 1
    merged = list(seen.values())
    with open(outv, "w") as f:
        f.write("(* GENERATED by tools/featgen.py from /repo/Cargo.toml and /repo/src/**/*.rs -- do not edit.\n"
                "   Regenerated on every run of ./check C20. *)\n")
        f.write("From JP Require Import FeaturesModel.\nImport ListNotations.\n\n")
        f.write("Definition implications (f : feat) : list feat :=\n  match f with\n")
        for ft in FEATURES:
            f.write(f"  | F{ft} => [{'; '.join('F' + x for x in implies[ft])}]\n")
        f.write("  end.\n\n")
        def req(c):
            if c.startswith("crate::"):
                return coq_cfg(gate_expr(items[c[7:]]))
            return "CAny [" + "; ".join("CFeat F" + x for x in enables.get(c, []) if x in FEATURES) + "]"
        f.write("(* (gate around the reference, condition under which the referenced crate / gated in-crate item exists, line)\n"
                "   one entry per distinct (referenced thing, gate) pair *)\n")
        f.write("Definition sites : list (cfg * cfg * nat) :=\n  [\n")
        f.write(";\n".join(f"    ({coq_cfg(gate_expr(s['gate']))}, {req(s['crate'])}, {s['line']})  (* {s['crate']} at {s['file']}:{s['line']}  x{s['count']} *)" for s in merged))
        f.write("\n  ].\n")
    if "--json" in sys.argv:
        json.dump({"implies": implies, "enables": enables, "sites": merged, "all_sites": len(sites), "live_sites": len(live),
                   "module_gates": {k: [coq_cfg(x) for x in v] for k, v in modgates.items()},
                   "gated_items": {k: coq_cfg(gate_expr(v)) for k, v in items.items()}},
                  open(sys.argv[sys.argv.index("--json") + 1], "w"), indent=1)
    print(f"featgen: {len(sites)} crate-path references, {len(live)} outside cfg(test), {len(merged)} distinct (crate, gate) sites")


if __name__ == "__main__":
    main()
