#!/usr/bin/env python3
"""state_table.py -- the per-property state table of DESIGN.md 13.13, computed from /verif/evidence/*.json (what the last run
of every check actually covered).  Prints markdown."""
import json, os, re
ROOT = os.path.dirname(os.path.dirname(os.path.abspath(__file__)))
rows, tot_h, tot_s, fns_all = [], 0, 0, set()
for l in open(f"{ROOT}/properties.jsonl"):
    pid = json.loads(l)["id"]
    p = f"{ROOT}/evidence/{pid}.json"
    if not os.path.exists(p):
        rows.append(f"| {pid} | (no evidence) | | | | | |"); continue
    e = json.load(open(p)); c = e["coverage"]
    ths = c.get("theorems", [])
    src = [t for t in ths if re.match(r"C\d\d_src_", t)]
    hand = [t for t in ths if t not in src]
    rm = c.get("regenerated_model") or {}
    fns = rm.get("functions", {})
    fns_all |= set(fns)
    suites = sorted({(x.get("suite") or "") for x in c.get("correspondence", []) if isinstance(x, dict)})
    tot_h += len(hand); tot_s += len(src)
    rows.append(f"| {pid} | {len(hand)} | {len(src)} | {len(fns)} | {' '.join(s for s in suites if s)} | {c.get('evaluations', '')} | {round(e.get('wall_s', 0))} |")
print("| id | theorems about the hand model | theorems about the regenerated functions | functions re-translated for it | suites (each against the debug and the release build) | cases per quick run | wall s |")
print("|---|---|---|---|---|---|---|")
print("\n".join(rows))
print(f"\n{tot_h + tot_s} theorems in all ({tot_h} + {tot_s}); {len(fns_all)} distinct functions re-translated.")
