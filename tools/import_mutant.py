#!/usr/bin/env python3
"""import_mutant.py <worktree> <n> <seed-id> <property> <needs> -- copy a confirmed seeded change into /verif/seeded/<seed-id>/"""
import sys, os, shutil, json, subprocess
wt, n, sid, prop, needs = sys.argv[1:6]
dst = f"/verif/seeded/{sid}"
os.makedirs(dst, exist_ok=True)
shutil.copy(f"{wt}/mutant_{n}.diff", f"{dst}/patch.diff")
if os.path.isdir(f"{wt}/demo_{n}"):
    if os.path.exists(f"{dst}/demo"): shutil.rmtree(f"{dst}/demo")
    shutil.copytree(f"{wt}/demo_{n}", f"{dst}/demo", ignore=shutil.ignore_patterns("target", "Cargo.lock"))
elif os.path.exists(f"{wt}/demo_{n}.sh"):
    shutil.copy(f"{wt}/demo_{n}.sh", f"{dst}/demo.sh")
elif os.path.exists(f"{wt}/tests/demo_{n}.rs"):
    shutil.copy(f"{wt}/tests/demo_{n}.rs", f"{dst}/demo.rs")
if os.path.exists(f"{wt}/mutant_{n}.md"):
    shutil.copy(f"{wt}/mutant_{n}.md", f"{dst}/notes.md")
conf = subprocess.run(["/verif/tools/confirm_mutant.sh", wt, n], stdout=subprocess.PIPE, text=True).stdout.strip().splitlines()[-1]
meta = {"breaks_property": prop, "needs_to_manifest": needs,
        "confirmed_in_scratch_worktree": conf,
        "what_was_run": [f"tools/confirm_mutant.sh {wt} {n}   (cargo test --workspace with the change; demonstration with and without it)",
                         f"tools/try_mutant.sh seeded/{sid}/patch.diff {prop}   (git -C /repo apply; ./check {prop}; git -C /repo checkout -- .)"],
        "origin": "written by a fresh sub-agent that saw only the property text and its own scratch worktree",
        "demo": "demo/ is a tiny cargo project expecting to sit inside a checkout of the crate (jsonptr = { path = \"..\" }); copy it to <checkout>/demo_x, copy <checkout>/Cargo.lock next to its Cargo.toml, cargo run --offline"}
json.dump(meta, open(f"{dst}/meta.json", "w"), indent=1)
print(sid, conf)
