#!/usr/bin/env python3
"""Regenerates /verif/MANIFEST.json from tools/props.py (claimed checks) and properties.jsonl."""
import json, os, sys
ROOT = os.path.dirname(os.path.dirname(os.path.abspath(__file__)))
sys.path.insert(0, os.path.join(ROOT, "tools"))
import props as P

ids = [json.loads(l)["id"] for l in open(os.path.join(ROOT, "properties.jsonl"))]
checks, na = [], []
for pid in ids:
    cfg = P.PROPERTIES.get(pid)
    if not cfg or cfg.get("unclaimed"):
        na.append({"property_id": pid, "reason": (cfg or {}).get("unclaimed", "check not built yet (work in progress; see DESIGN.md section 6 for the plan)")})
        continue
    checks.append({
        "property_id": pid,
        "quick_cmd": f"./check {pid} --tier quick",
        "thorough_cmd": f"./check {pid} --tier thorough",
        "evidence_file": f"/verif/evidence/{pid}.json",
        "replay_cmd_template": f"./check {pid} --replay {{path}}",
        "engine": "coq-model+correspondence",
        "level_claimed": {"category": "proof", "text": cfg["level_text"] + cfg.get("level_suffix", ""), "design_ref": cfg.get("design_ref", f"DESIGN.md section 6, {pid}")},
        "level_note": cfg.get("level_note", P.DEFAULT_LEVEL_NOTE),
        "technique": cfg.get("technique", "Coq 8.16 theorems over a hand-written executable Gallina model + per-run differential correspondence check (model extracted to OCaml vs the real crate) + model-independent property oracles"),
    })
m = {
    "version": 1,
    "setup_cmd": "./setup.sh",
    "hooks": {
        "guard": "jsonptr_verif",
        "enable": "none needed: every observable is reachable through the public API (Label via its Debug output; allocation via the harness's own allocator); the cfg name is reserved and unused",
        "baseline_off_cmd": "cd /repo && cargo test --workspace --no-fail-fast --offline",
        "source_commits": [],
        "add_only": True,
    },
    "engines": [{
        "name": "coq-model+correspondence", "path": "/verif/check",
        "serves_properties": [c["property_id"] for c in checks],
        "kind_free_text": "machine-checked proof in Coq 8.16.1 over an executable model (coq/), tied to /repo on every run by a differential correspondence check (harness/ + runner/) and backed by model-independent property oracles that produce the replays",
    }],
    "checks": checks,
    "not_applicable": na,
    "notes": "fix: commits in /repo (genuine defects F1-F7, see DESIGN.md section 5 and known_findings.txt): 219dc5b 07e1e67 a1d2f69 5cfa321 4267564 812507b 63aa0c5. No hook commits.",
}
json.dump(m, open(os.path.join(ROOT, "MANIFEST.json"), "w"), indent=1)
print(f"MANIFEST.json: {len(checks)} checks, {len(na)} not claimed")
