#!/usr/bin/env python3
"""install_mutant.py <worktree> <n> <seeded-id> <property> <confirm-RESULT-line> <needs...>: copy a confirmed seeded change
(mutant_n.diff, demo_n/, notes_n.md of a sub-agent's scratch worktree) to /verif/seeded/<seeded-id>/ with its meta.json."""
import sys, os, shutil, json
wt, n, sid, prop, result = sys.argv[1:6]
needs = " ".join(sys.argv[6:])
root = os.path.dirname(os.path.dirname(os.path.abspath(__file__)))
d = f"{root}/seeded/{sid}"
os.makedirs(d, exist_ok=True)
shutil.copy(f"{wt}/mutant_{n}.diff", f"{d}/patch.diff")
if os.path.isdir(f"{wt}/demo_{n}"):
    shutil.rmtree(f"{d}/demo", ignore_errors=True)
    shutil.copytree(f"{wt}/demo_{n}", f"{d}/demo", ignore=shutil.ignore_patterns("target", "Cargo.lock"))
if os.path.exists(f"{wt}/notes_{n}.md"):
    shutil.copy(f"{wt}/notes_{n}.md", f"{d}/notes.md")
json.dump({
 "breaks_property": prop,
 "needs_to_manifest": needs,
 "confirmed_in_scratch_worktree": result,
 "what_was_run": [
  f"tools/confirm_mutant.sh {wt} {n}   (cargo test --workspace with the change; demonstration with and without it)",
  f"tools/try_mutant.sh seeded/{sid}/patch.diff {prop}   (git -C /repo apply; ./check {prop}; git -C /repo checkout -- .)"],
 "origin": "wave 10: written by a fresh sub-agent that saw only the property text and its own scratch worktree",
 "demo": "demo/ is a tiny cargo project expecting to sit inside a checkout of the crate (jsonptr = { path = \"..\" }); copy it to <checkout>/demo_x, copy <checkout>/Cargo.lock next to its Cargo.toml, cargo run --offline"
}, open(f"{d}/meta.json", "w"), indent=1)
print("installed", d)
