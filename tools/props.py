"""Per-property configuration for ./check (suites, builds, non-triviality rules, trusted base)."""
import re
import c20

TRUSTED_BASE = [
    "Coq 8.16.1 kernel (coqc), incl. its vm_compute conversion (Examples, finite C20 theorem, cases.v evaluation); no native_compute; thorough tier re-checks with coqchk",
    "axioms: none -- every property theorem prints 'Closed under the global context' (checked on every run)",
    "the hand-written Gallina model coq/Model/*.v, coq/Bytes.v: tied to /repo only by the per-run correspondence check over the explored cases",
    "correspondence machinery: Rust harness (/verif/harness, path dependency on /repo), Gallina protocol code coq/Proto.v + coq/Driver.v, "
    "OCaml extraction with ExtrOcamlBasic only (Extract Inductive bool/option/unit/list/prod/sumbool/sumor, Extract Inlined Constant andb/orb; "
    "nat, positive, N, Z, Decimal.uint stay Coq inductives), runner/driver.ml, ocamlfind ocamlopt; extraction cross-checked per run by vm_compute inside Coq on a sample",
    "for the properties with a regenerated model (evidence key coverage.regenerated_model): the translator tools/rsparse.py + tools/rs2v.py (Rust subset -> Gallina; "
    "table-driven, anything unknown is an error), the primitive mappings of coq/GenPrelude.v and coq/GenTreePrelude.v (std str / String / Vec / Option / Result / Cow primitives, "
    "serde_json / toml maps as sorted association lists, `token.to_index()` in callers as prim_to_index = the hand-written index_from_str on the encoded text (tied by Proofs/GenEquivIndexStr.v to the translated chain Token::to_index -> try_into -> TryFrom<&Token> for Index -> Index::from_str), `p.tokens()` in callers as the list str_tokens (tied to the translated Pointer::tokens / Tokens::next by Proofs/GenEquivPtrOps.v; std's str::split(char) = split_on and Iterator::next on it = head / tail remain primitive)), usize `+` as unbounded addition, "
    "str::split_at is modelled with BOTH its panics (out of range, and off a char boundary by core's byte-level test); the char-boundary panics of `&s[a..b]` on str, String::insert / remove / split_off are not part of the primitives the generated functions call, but Properties/C01_boundary.v proves that on well-formed UTF-8 the faithful primitives (with that panic) coincide with them at 0, len, at and one past every ASCII byte - the positions the source computes - and panic inside a character (the crate only calls these at positions it has computed with find / rfind); the equivalence lemmas coq/Proofs/GenEquiv*.v are re-checked by coqc on every run; LENS MODE (the `&mut` walks of "
    "src/assign.rs, src/delete.rs and resolve_mut as a reference, coq/Generated/ScanTreeMut.v): the lens primitives of coq/GenTreePrelude.v (lens_root / lens_arr / lens_obj / "
    "lens_index / lens_get_mut / lens_entry / lens_set) as the meaning of `&mut doc`, a Value::Array / Object / Table pattern under a reference, `&mut a[i]`, Map::get_mut, Map::entry "
    "(Occupied::into_mut / Vacant::insert) and of the writes mem::replace / Vec::push / Vec::remove / Map::remove / Map::insert through one; the translator's path-sensitive staleness "
    "discipline (any use of a reference that may predate a write is a translation error); debug_assert! read with its debug-profile meaning; Pointer::assign / delete / resolve_mut "
    "(one-line generic delegations) mapped to the backend impl of the same module",
    "platform facts assumed by the model: 64-bit usize; UTF-8 self-synchronisation (bytes < 0x80 never occur inside a multi-byte sequence); "
    "BTreeMap-backed serde_json::Map / toml::Table (no preserve_order); std str/String/Vec primitives behave as documented",
]

ASSUMPTIONS = [
    "the theorems are about the Gallina model; agreement of model and code is established only on the explored cases (small-scope exhaustive + seeded random), not for all inputs",
    "UB-freedom of the crate's unsafe blocks, memory exhaustion, Display/Debug message texts and miette rendering are not covered",
]

DEFAULT_LEVEL_NOTE = ("Trusted: Coq 8.16.1 kernel; no axioms (Print Assumptions checked per run); the hand-written model is tied to the code only by "
                      "the correspondence check, whose reach is the explored cases (small-scope exhaustive + seeded random); harness, Gallina protocol code, "
                      "ExtrOcamlBasic extraction and the OCaml driver (cross-checked by vm_compute inside Coq on a sample each run); 64-bit usize; documented behaviour of std.")

def hexfields(c):
    return [f for f in c.split(" ") if re.fullmatch(r"x[0-9a-f]*", f)]

NONTRIVIAL = {
    # token: the text contains '~' or '/'
    "token": lambda c: any(("7e" in f or "2f" in f) for f in hexfields(c)),
}

NONTRIVIAL.update({
    # parse: the text contains '~' or a '/' beyond the first byte
    "parse": lambda c: any(("7e" in f or "2f" in f[3:]) for f in hexfields(c)),
})

NONTRIVIAL.update({
    # tokens: at least two fields, or a text with an inner '/' or '~'
    "tokens": lambda c: len(hexfields(c)) >= 2 or any(("7e" in f or "2f" in f[3:]) for f in hexfields(c)),
    # index: any case other than the empty string
    "index": lambda c: c not in ("idx x",),
})

NONTRIVIAL.update({
    # cmp: the two texts differ
    "cmp": lambda c: len(set(hexfields(c))) == 2,
    # conv: a text with '~' or an inner '/', or an integer with at least two characters
    "conv": lambda c: any(("7e" in f or "2f" in f[3:]) for f in hexfields(c)) or (c.startswith("tint ") and len(c) > 6),
})

NONTRIVIAL.update({
    # alloc: a text of at least two bytes
    "alloc": lambda c: len(hexfields(c)[0]) > 3,
})

NONTRIVIAL.update({
    # buf: a history of at least two steps
    "buf": lambda c: c.count(" ") >= 3,
    # prefix: both pointers non-root
    "prefix": lambda c: all(len(f) > 1 for f in hexfields(c)),
})

NONTRIVIAL.update({
    "slice": lambda c: len(hexfields(c)[-1]) > 3,
})

def tree_ops(*ops):
    rx = re.compile(r" (%s)( x|$| ;)" % "|".join(ops))
    return lambda c: bool(rx.search(c))

NONTRIVIAL.update({
    # tree / hist: the pointer has at least one token (an op followed by a non-empty hex field)
    "tree": lambda c: bool(re.search(r" [RMADW] x[0-9a-f]{2}", c)),
    "hist": lambda c: c.count(" ; ") >= 1,
})

TREE_RULE = ("suite tree: every document with <= 3 (quick) / 4 (thorough) nodes over keys {\"\", a, ~, /, ~1, 0, -, 01, é} and scalars {null, true, 7, \"s\"} (TOML: without null), for each the pointer of every node "
             "plus single-token perturbations (-, 0, 00, +1, 1, a, \"\", ~01, ~0, zz, len, len+1, 2^64, é; one more token below; last token replaced), on both backends, through resolve / resolve_mut / delete / "
             "assign x 3-4 values / write-through, plus the every-node-addressable sweep per document; then seeded random documents (depth <= 5, fan-out <= 4) with shape-following and perturbed pointers; "
             "non-trivial = non-root pointer; distinct = distinct case lines")

REGEN_TECHNIQUE = ("Coq 8.16 theorems over BOTH (a) a model REGENERATED on every run from the current Rust source by a translator (tools/rs2v.py -> coq/Generated/Scan*.v; "
                   "the property is proved of the regenerated functions, via machine-checked equality with the hand-written model, for all inputs) AND (b) the hand-written executable "
                   "Gallina model tied to the code by the per-run differential correspondence check (model extracted to OCaml vs the real crate) + model-independent property oracles")

LENS_NOTE = (" LENS MODE (DESIGN 13.8): the walks that mutate through `&mut` (assign_value / assign_array / assign_object / assign_scalar / Assign::assign, Delete::delete, "
             "ResolveMut::resolve_mut, both backends) are re-translated too (coq/Generated/ScanTreeMut.v): a `&mut` reference into the document is the pair (content, write-back), "
             "each function returns the document after its writes beside its result, and Proofs/GenEquivTreeMut.v proves them equal to the hand-written model for every real document "
             "(BTreeMap keys sorted) and EVERY pointer text.")


def regen_note(fns):
    return (" REGENERATED-MODEL TIE: " + fns + " are re-translated from /repo's current source into Gallina on every run (tools/rs2v.py) and the theorems of "
            "coq/Properties/<id>_src.v are re-proved of the regenerated definitions, for all inputs; an edit to one of these functions that breaks them breaks the proof stage even when "
            "no explored input shows a difference (reported with the failing input the search finds, else `no-failing-input-found`).")

PROPERTIES = {
    "C01": {
        "regen": {"groups": ["Pointer", "Token", "PtrOps", "Slice", "Buf", "PtrBuild"]},
        "technique": REGEN_TECHNIQUE,
        "extra_theorem_files": ["Properties/C01_utf8.v", "Properties/C01_boundary.v"],
        "level_suffix": regen_note("the parser, the token constructors, every accessor / splitter / slicer, the two-pointer operations, the builders and all PointerBuf mutators (Properties/C01_src.v: what they return or leave behind for valid inputs is valid RFC 6901 text)") + " UTF-8 LAYER (Properties/C01_utf8.v): with utf8_valid = the Unicode Standard's Table 3-7 (Rust's str validity), every constructor, accessor, slicer, two-pointer operation and every "
                        "finite history of the seven mutators maps well-formed UTF-8 to well-formed UTF-8 - the logical precondition of each internal from_utf8_unchecked / new_unchecked (their UB-freedom itself is not covered).",
        "runs": [{"suite": s_} for s_ in ("token", "parse", "tokens", "buf", "slice", "prefix", "conv")],
        "level_text": "Proved in Coq, one clause per safe public function family (constructors and the eight doors, Token::new/from_encoded/into_owned/from(integer), both Deserialize impls, from_tokens/From<Token>/From<usize>; "
                      "tokens/components/front/back/get/split_front/split_back/parent/split_at and every range form through the (Bound,Bound) impl; strip_prefix/strip_suffix/intersection/concat/with_leading/trailing_token): "
                      "valid inputs give valid RFC 6901 outputs; for every valid start and every finite history of the seven mutators with arbitrary arguments the buffer stays valid and every returned token is valid "
                      "(induction over the history, C11); re-parsing succeeds and gives back the same text. Built on tokens_app and the per-function theorems of C02-C04, C11-C13. "
                      "Tie: seven suites; an independent RFC 6901 recogniser in the harness is applied to the text of every value every call returns, plus re-parse-and-compare.",
        "rule": "suites token, parse, tokens, buf, slice, prefix, conv as for C03, C02, C04, C11, C12, C13, C18; non-trivial and distinct per suite as there",
    },
    "C05": {
        "regen": {"groups": ["Tree", "Token", "PtrOps", "Slice", "Index", "TreeMut"]},
        "technique": REGEN_TECHNIQUE,
        "level_suffix": regen_note("the four walks Resolve / ResolveMut for serde_json::Value and toml::Value, the helper parse_index, resolve::Error's accessors and Diagnostic::labels (src/resolve.rs); Token::to_index is the hand-written index_from_str") + LENS_NOTE + " For C05: resolve_mut returns a REFERENCE at the path resolve reports (C05_src_resolve_mut_is_reference).",
        "runs": [{"suite": "tree", "filter": tree_ops("R", "M", "N")}],
        "level_text": "Proved in Coq for every document, every valid pointer: the transliterated fuelled split_front walk equals spec_resolve, structural recursion on the token list (objects by the decoded token, arrays by a canonical "
                      "index < length), never Panic/OutOfFuel; the result carries the selector path of the node with get_at path D = Some v (that very node, not a copy); for every well-formed document every node is resolved by the "
                      "pointer spelled from its path (keys through Token::new, indices in decimal; needs the index round trip of C16 and injectivity of escaping); each error constructor is characterised by an iff over the first failing "
                      "step (Unreachable / NotFound / FailedToParseIndex / OutOfBounds incl. '-'). Tie: resolve and resolve_mut on both backends: outcome, payloads, value, and the node identity found by std::ptr::eq search.",
        "rule": TREE_RULE + "; for C05 the resolve / resolve_mut / every-node cases",
    },
    "C06": {
        "regen": {"groups": ["Tree", "Token", "PtrOps", "Slice", "Index", "TreeMut"]},
        "technique": REGEN_TECHNIQUE + " (regenerated: `expand` and, in lens mode, the whole assign walk: assign_value / assign_array / assign_object / assign_scalar / Assign::assign of both backends)",
        "level_suffix": regen_note("json::expand and toml::expand (src/assign.rs): which tokens materialise an array, which an object keyed by the DECODED token") + LENS_NOTE + " For C06: C06_src_assign_is_model / C06_src_assign_follows_rules -- the source's assign IS the rule table spec_assign on every valid pointer.",
        "runs": [{"suite": "tree", "filter": tree_ops("A")}],
        "level_text": "Proved in Coq for every document, valid pointer and value: assign = spec_assign on the token list and expand (a fold from the back via split_back) = materialise (recursion from the front); one theorem per clause "
                      "(root, existing element/member, append at length or '-', missing member, scalar in the path, the two errors) and the iff 'the only failures are a non-index token or an index > length on an existing array'; "
                      "materialise keys objects by the DECODED token and creates arrays exactly for \"0\" and \"-\". Tie: assign on both backends: document afterwards and full Result, plus an independent reference assign written from the prose.",
        "rule": TREE_RULE + "; for C06 the assign cases",
    },
    "C07": {
        "regen": {"groups": ["Tree", "Token", "PtrOps", "Slice", "Index", "TreeMut"]},
        "technique": REGEN_TECHNIQUE + " (regenerated: resolve, for_len_incl, expand and, in lens mode, the assign walk itself)",
        "level_suffix": regen_note("what the laws are read with and what assign decides with: the resolve walks, Index::for_len_incl, expand (src/resolve.rs, src/index.rs, src/assign.rs)") + LENS_NOTE + " For C07: C07_src_atomic_on_error (a failed assign of the source hands back the document it was given) and C07_src_assign_is_spec (every law proved of spec_assign is a law of the source).",
        "runs": [{"suite": "tree", "filter": tree_ops("A")}],
        "level_text": "Proved in Coq on spec_assign and transported to the model through C06's equality: atomic on error (document unchanged; needs the BTreeMap invariant because the functional model rebuilds the spine), read-your-write "
                      "(with '-' read as the new last index; plain resolve for dash-free pointers), frame (every location neither a token-prefix of p nor below p keeps its value and node), replaced = what resolved before / None "
                      "overwrites nothing, idempotence of a dash-free assignment; the invariant is preserved. These laws are independent of the transliterated algorithm. Oracle: the five laws executed on the real crate per case.",
        "rule": TREE_RULE + "; for C07 the assign cases, each followed by the law checks (resolve after assign, every old path compared, assign twice)",
    },
    "C08": {
        "regen": {"groups": ["Tree", "Token", "PtrOps", "Slice", "Index", "TreeMut"]},
        "technique": REGEN_TECHNIQUE + " (regenerated: split_back, the resolve_mut parent walk, Index::from_str, for_len, decoded and, in lens mode, Delete::delete itself on both backends)",
        "level_suffix": regen_note("every decision delete takes: Pointer::split_back, the resolve_mut parent walk on both backends, Index::from_str, the exclusive bound check Index::for_len, Token::decoded") + LENS_NOTE + " For C08: C08_src_delete_is_model / C08_src_delete_refines -- the source's delete removes exactly the node resolve finds or changes nothing; C08_src_parent_reference -- the parent is reached by reference.",
        "runs": [{"suite": "tree", "filter": tree_ops("D")}],
        "level_text": "Proved in Coq: delete = spec_delete, never Panic (the model's Vec::remove panics when idx >= len, so with for_len_incl this is false and with for_len provable); returns Some v iff the pointer resolves (to v); "
                      "None leaves the document unchanged; on success exactly that member is removed (lookup None, other members and unrelated locations unchanged) or that element removed with successors shifted down by one "
                      "(nth_error characterisation, length - 1); root leaves Null / empty table; invariants preserved. Tie: delete on both backends under catch_unwind.",
        "rule": TREE_RULE + "; for C08 the delete cases",
    },
    "C09": {
        "regen": {"groups": ["Tree", "Token", "PtrOps", "Slice", "Index", "TreeMut"]},
        "technique": REGEN_TECHNIQUE + " (assign / delete of both backends: regenerated in lens mode and proved equal to ONE model, hence to each other, in Proofs/GenEquivTreeMut.v; the C09_src theorems are about the resolve copies)",
        "level_suffix": regen_note("the json and toml copies of resolve and resolve_mut (src/resolve.rs): the four regenerated walks are proved to agree on every document and pointer; json / toml expand (src/assign.rs)"),
        "runs": [{"suite": "tree"}, {"suite": "hist"}],
        "level_text": "MOSTLY TIE (DESIGN 6/C09): the model has one transliteration per walk over a common value type, so backend agreement is true by construction there; the assurance is that EACH of the eight Rust functions "
                      "(resolve/resolve_mut/assign/delete x serde_json/toml) is compared per case against the model on both backends, and the harness runs every common-domain case through both value types and compares outcomes directly. "
                      "Proved: the parse_index-helper copy of resolve_mut is the same walk; deletes differ only at root (Null vs empty table); a value written through resolve_mut is read back by resolve at the same node and no other location changes.",
        "rule": TREE_RULE + "; every json case in the common domain is also run on toml::Value and vice versa and compared",
    },
    "C10": {
        "regen": {"groups": ["Tree", "Token", "PtrOps", "Slice", "Index", "TreeMut"]},
        "technique": REGEN_TECHNIQUE + " (regenerated: every step of a history -- the four resolve walks incl. their error values and labels, expand, and in lens mode assign, delete and the write through resolve_mut)",
        "level_suffix": regen_note("the reading steps of a history (the four resolve / resolve_mut walks, their error values and labels) and expand") + LENS_NOTE + " For C10: C10_src_history_refines -- the fold of the REGENERATED assign / delete / resolve / write-through over any history of valid operations from a real document equals the reference tree store (document and every returned value), and never panics.",
        "runs": [{"suite": "hist"}],
        "level_text": "Proved in Coq by induction over the history from the single-step equalities: for every initial document and every finite list of assign / delete / resolve / write-through operations with valid pointers, "
                      "folding the transliterated walks equals folding the reference tree (documents and every returned value), never Panic; the map invariant is preserved and in every reached document every node is resolved by "
                      "the pointer spelled from its path; every error value produced locates a token of its pointer (C15). Tie: histories in lock step with serde_json::Value / toml::Value and an independent reference tree.",
        "rule": "suite hist: every history of length <= 2 (quick) / 3 (thorough) over a ~54-operation alphabet (10 pointers x {delete, resolve, assign x 3 values}, 3 write-throughs) from 6 start documents on both backends, each followed by the "
                "every-node sweep; seeded random histories up to 16 steps over random documents; non-trivial = at least two steps; distinct = distinct case lines",
    },
    "C15": {
        "regen": {"groups": ["Tree", "Token", "PtrOps", "Slice", "Index", "TreeMut"]},
        "technique": REGEN_TECHNIQUE,
        "level_suffix": regen_note("the offset / position accessors and Diagnostic::labels of resolve::Error and assign::Error, and the four resolve walks that produce the positions (src/resolve.rs, src/assign.rs)"),
        "runs": [{"suite": "tree", "filter": tree_ops("R", "M", "A", "W")}],
        "level_text": "Proved in Coq for resolve, resolve_mut (through a write) and assign: on failure position = number of tokens consumed (a token index of p), offset = sum of 1 + encoded length over the preceding tokens, the byte "
                      "at offset is '/', get(position) is the culprit, split_at(offset) cuts directly before it; out-of-bounds carries (requested index with '-' as length, actual length), parse errors carry the reason for the "
                      "token's own text; the label covers exactly the culprit's bytes, or is an empty span at offset / offset+1 inside p for an empty token. Tie: failing calls on both backends incl. the Label numbers.",
        "rule": TREE_RULE + "; for C15 the failing resolve / resolve_mut / assign calls",
    },
    "C12": {
        "regen": {"groups": ["PtrOps", "Slice"]},
        "technique": REGEN_TECHNIQUE,
        "level_suffix": regen_note("all eight PointerIndex::get impls of src/pointer/slice.rs (usize, the six range types, (Bound, Bound)) and Pointer::split_front / split_at / split_back / parent (src/pointer.rs)"),
        "runs": [{"suite": "slice", "profile": "debug"}, {"suite": "slice", "profile": "release"}, {"suite": "tokens"}],
        "level_text": "Proved in Coq for every token list of slash-free tokens (hence every valid pointer) and ALL bounds over N (up to and beyond usize::MAX): each of the five token-counting loops of slice.rs is characterised "
                      "by a loop lemma generalised over its counters; get(a..b) is Some iff a<=b<=n and a<n, a.. iff a<n, ..b iff b<=n, a..=b iff a<=b<n, ..=b iff b<n, .. always (the crate's rule, e.g. n..n is None); the nine Bound "
                      "pairings reduce to these with Excluded(s) as a start meaning s+1 CHECKED (usize::MAX -> None, never Panic, never a wrapped start); every Some result is the byte range (off a, off b) whose content is exactly the "
                      "pointer of the denoted token sub-list and a valid pointer; split_at(k) is Some iff byte k is '/', iff k = off j, with pieces re-concatenating to p; split_front/split_back/parent against the token list; "
                      "the loop counters never exceed |p| (so unbounded N models usize faithfully). Tie: 341 pointers x every index form and all 289 Bound pairings over {0..5, MAX-1, MAX}, every split_at offset, long pointers; debug and release.",
        "rule": "suite slice: pointers with <= 3 (quick) / 4 (thorough) tokens over {\"\", a, ab~0, ~1} x get(i), a..b, a.., ..b, a..=b, ..=b, .., all (Bound,Bound) pairs with bounds from {0..5, usize::MAX-1, usize::MAX}, split_at at every byte offset and at usize::MAX; "
                "pointers of up to 1500 random tokens with random bounds; debug and release builds; plus suite tokens for split_front/split_back/parent views; non-trivial = non-root pointer; distinct = distinct case lines",
    },
    "C20": {
        "pre_proof": c20.pre_proof,
        "special": c20.special,
        "exhaustive": True,
        "coqchk": True,
        "runs": [{"suite": s_, "variant": v_, "oracle_any": v_ == "nostd", "cross_variant": True}
                 for s_ in ("token", "parse", "tokens", "slice", "prefix") for v_ in ("nostd", "full")],
        "technique": "Coq theorem over a model REGENERATED from Cargo.toml + cfg gates on every run (finite, all 256 subsets, vm_compute lifted by forallb_forall) + exhaustive cargo check sweep as the judge; "
                     "no_std behaviour: differential correspondence of the core suites against a harness linked with default-features = false",
        "level_text": "(a) The feature model is REGENERATED from /repo on every run by tools/featgen.py ([features] table incl. the 'serde/std' implication, optional dependencies, every crate-path / gated-item reference with the "
                      "conjunction of cfg gates around it) and the theorem 'for all 256 feature subsets, closed under the declared implications, every reference is compiled out or names something that exists' is re-proved "
                      "(finite domain enumerated completely; the bound is in the statement). The translator is approximate and NOT trusted for the verdict: rustc is the judge - cargo check --lib on all 256 subsets in both tiers; "
                      "a subset rustc rejects is the failing input (replay = that command). (b) The core suites (token, parse, tokens, slice, prefix) are run against a harness linked with jsonptr default-features = false "
                      "(no_std + alloc) and against the default build; both agree with the same feature-free model on the same case stream.",
        "rule": "all 256 subsets of {std, serde, json, toml, assign, resolve, delete, miette} through cargo check --lib --no-default-features (exhaustive); plus the five core suites under the no_std and the default build; "
                "non-trivial subsets = the 255 non-empty ones; suites as for C03/C02/C04/C12/C13",
        "trusted_extra": ["cargo + rustc 1.95 (the judge of 'compiles' on all 256 subsets); tools/featgen.py only for the explanatory theorem, not for the verdict"],
    },
    "C11": {
        "regen": {"groups": ["Buf", "Token", "PtrOps"]},
        "technique": REGEN_TECHNIQUE,
        "level_suffix": regen_note("all seven mutators PointerBuf::push_front, push_back, pop_back, pop_front, append, replace, clear and from_tokens (src/pointer.rs)"),
        "runs": [{"suite": "buf"}],
        "level_text": "Proved in Coq for every valid start pointer and every finite history of the seven mutators with arbitrary arguments (indices over all of N): the implementation-level models splice bytes as the code does "
                      "(insert at 0, rfind+split_off+pop, find in [1..]+split_off+mem::replace, collect-and-rebuild, root-aware append); one-step refinement for each mutator gives new text = from_tokens(deque after), "
                      "valid, and the returned value corresponds (popped token / None iff empty; replace -> previous token or ReplaceError{index,count} with the text unchanged, error iff index >= count); "
                      "lifted by induction to all histories (C11_refines_deque), never Panic; append is list concatenation, root neutral both sides, associative. "
                      "Tie: every history of length <= 3/4 over 25 operations from 3 start states and random histories up to 60 steps, in lock step with the model and with a VecDeque<String>.",
        "rule": "suite buf: every history of length <= 3 (quick) / 4 (thorough) over 25 ops (push_front/back x 5 raw tokens incl. \"\" ~ / é, 2 pre-encoded pushes, pop_front, pop_back, append x {root, /, /a//~1}, "
                "replace x {0,1,usize::MAX} x 3 tokens, clear) from {root, /, /a/~0/}; random histories up to 60 steps; non-trivial = at least two steps; distinct = distinct case lines",
    },
    "C13": {
        "regen": {"groups": ["PtrOps"]},
        "technique": REGEN_TECHNIQUE,
        "level_suffix": regen_note("Pointer::strip_prefix, strip_suffix, starts_with, ends_with, intersection (src/pointer.rs)"),
        "runs": [{"suite": "prefix"}],
        "level_text": "Proved in Coq for all pairs (triples) of valid pointers: starts_with (never panics) iff the token list of q is a leading sub-list of p's; strip_prefix = Some v iff the same, with v the pointer of the "
                      "remaining tokens, valid, q.concat(v) = p and v a suffix view of p; strip_suffix / ends_with the mirror image with root treated as documented; intersection = pointer of the longest common leading "
                      "token list (prefix of both, greatest, symmetric, idempotent, root if either is root, a prefix view of p); concat = list concatenation, associative, root neutral; the boundary lemma "
                      "(a string prefix followed by '/' or end is a token prefix) is what forbids splitting a token (Example: /foo vs /foobar). "
                      "Tie: all ordered pairs of 91/347 pointers incl. string-prefix-but-not-token-prefix neighbours, and random related pairs, all six operations per pair.",
        "rule": "suite prefix: all ordered pairs of the pointers with <= 3 (quick) / 4 (thorough) tokens over {\"\", a, ab~0, ~1} plus /foo /foobar /foo/bar /a~0 /a~1 /a~0~0; random (base, base+suffix, base+string-extension) pairs; "
                "non-trivial = both pointers non-root; distinct = distinct case lines",
    },
    "C19": {
        "regen": {"groups": ["Token", "Pointer", "PtrOps", "Slice", "Buf", "PtrBuild", "Conv"]},
        "technique": "MEASUREMENT (counting global allocator) for the allocation counts; " + REGEN_TECHNIQUE + " for the Cow-variant logic and for a STATIC allocation-site count of every translated function",
        "level_suffix": regen_note("Token::new, Token::decoded, Token::from_encoded (src/token.rs) -- the Cow variant each builds") + " STATIC ALLOCATION SITES (DESIGN 13.14): beside every translated function the translator emits <f>_alloc_sites, the number of places in its body and (transitively) in the translated functions it calls where a std operation that can allocate occurs (the translator's table is closed, so nothing else can occur); C19_src_zero_copy_operations_have_no_allocation_site proves the count is 0 for parsing a borrowed pointer, from_encoded, token / component iteration, first / last / get, every split, parent, all eight range forms, strip_prefix / suffix, starts / ends_with, intersection and PointerBuf::new / root - for ALL inputs no allocating operation is even reachable in the source as it stands. (Box::into_buf and Pointer::root are outside the translated subset: measured only.)",
        "runs": [{"suite": "alloc", "profile": "debug"}, {"suite": "alloc", "profile": "release"}],
        "level_text": "PARTIAL BY NATURE (DESIGN 6/C19, 9): heap allocation is a runtime fact and is MEASURED, not proved - a counting #[global_allocator] in the harness counts allocations "
                      "around each listed operation (parse ok/err, from_encoded, tokens/components iteration, first/last/get, every split, parent, all range forms, strip_prefix/suffix, starts/ends_with, "
                      "intersection, root/new, Box::into_buf, Token::new on plain text borrowed and owned, decoded() of escape-free borrowed/owned/from_encoded/into_owned tokens) on every small string and on "
                      "multi-KiB pointers with thousands of tokens, debug and release; count must be 0. Proved in Coq (the logical part): Token::new builds an owned buffer iff the text has '~' or '/', "
                      "decoded() iff the token has '~', and otherwise both hand back the very input; the view results are C02/C12/C13. The model's parse/from_encoded flags are constants.",
        "rule": "suite alloc: every string over {~ / 0 1 a é} up to length 5 (quick) / 6 (thorough) paired with 4 second pointers, plus pointers of 1-3000 random tokens with a token-prefix/suffix partner and long plain / invalid texts; "
                "debug and release; non-trivial = text of at least two bytes; distinct = distinct case lines",
        "assumptions": ["std's str primitives (split, find, rfind, strip_prefix, strip_suffix, starts_with, split_at, Box<str>::into_string) do not allocate; what the allocator sees is measured only on the explored inputs"],
    },
    "C17": {
        "runs": [{"suite": "cmp"}],
        "exhaustive": False,
        "regen": {"groups": ["Cmp"]},
        "technique": REGEN_TECHNIQUE + " (regenerated: all 32 hand-written mixed PartialEq / PartialOrd impls, discovered in src/pointer.rs on every run, and the derive lists / newtype shape of the two declarations; the derived impls themselves are rustc's)",
        "level_suffix": regen_note("every hand-written `impl PartialEq<X> for Y` / `impl PartialOrd<X> for Y` of src/pointer.rs (32 impls, discovered not listed: Properties/C17_src.v proves each IS the comparison of the two texts with the operands in the order written, and that the lists cover every impl found) and the #[derive(..)] lists and one-field shape of Pointer(str) / PointerBuf(String)"),
        "level_text": "THIN THEOREMS, HEAVY TIE (DESIGN 6/C17, 9). Proved in Coq: the text comparison the model uses for every impl (str_cmp / str_eqb) is a total order whose Eq case is equality, "
                      "consistent with the equality impls and with the hash stream (text ++ 0xff is injective), so lookups through Borrow are sound. That each of the 17 hand-written PartialEq and "
                      "15 hand-written PartialOrd impls is that function is PROVED of the regenerated source (C17_src, all operands); for the derived Eq/Ord/Hash it is established by the tie, which also re-runs every hand-written impl: all ordered pairs of 60 pointer texts through every impl by UFCS, "
                      "eq/ne/partial_cmp/lt/le/gt/ge/cmp, a recording Hasher for Pointer/PointerBuf/str/String, HashMap/HashSet/BTreeMap lookups with &Pointer and iteration order.",
        "rule": "suite cmp: all 3600 ordered pairs of 60 pointer texts (equal, prefix-related, first/middle/last byte differing, length only, multi-byte) x 19 equality and 17 ordering impls + Ord + hash streams + map lookups; "
                "non-trivial = the two texts differ; distinct = distinct case lines",
    },
    "C18": {
        "runs": [{"suite": "conv"}],
        "regen": {"groups": ["Conv", "Pointer", "Token", "PtrOps", "Buf", "PtrBuild"]},
        "technique": REGEN_TECHNIQUE + " (regenerated: the text-level conversions and fallible constructors; the serde impls, Display, the Box casts and the integer -> Token macro stay hand-modelled)",
        "level_suffix": regen_note("Pointer::as_str / to_owned / parse / to_json_value, AsRef<str> / AsRef<[u8]> / AsRef<Pointer> / Borrow<str> / Borrow<Pointer> / Deref / as_ptr, PointerBuf::new / root, TryFrom<String> / TryFrom<&str> / FromStr for PointerBuf, Token::from for &str / &String / String / &Token, and the Display impls of Pointer, PointerBuf and Token read as the text they write (Properties/C18_src.v: a pointer prints exactly its text, a token its decoded text; the views are the identity on the text, the constructors ARE the parser and keep the input text, a Token from text holds the escaped text)"),
        "level_text": "THIN THEOREMS, HEAVY TIE for the identity conversions. Proved in Coq: deserialize(serialize p) = p for valid p and deserialize refuses exactly the invalid texts (via C02); "
                      "a Token made from an integer is its decimal spelling, valid as it stands, decodes to itself, parses back as the same index, and distinct integers give distinct tokens (all integers, "
                      "the widths only restrict the domain). to_buf/to_owned/Cow/Box<->into_buf/to_json_value/Display/into_owned are the identity on the text in the model; the tie runs each of them "
                      "(Box round trip with 5 capacity/length combinations; three deserializers; Token::from on the boundary values of all 12 integer types). The raw-pointer casts are exercised, not verified.",
        "rule": "suite conv: every string over {~ / 0 1 - a é} up to length 5 (quick) / 6 (thorough) and random texts through all conversions and serde paths; Token::from on MIN, MIN+1, MAX-1, MAX of the 12 integer types "
                "and random integers of every bit width; non-trivial = text with an escape or inner '/', or a multi-digit integer; distinct = distinct case lines",
    },
    "C04": {
        "regen": {"groups": ["PtrOps", "Slice", "Buf", "PtrBuild", "Token"]},
        "technique": REGEN_TECHNIQUE,
        "level_suffix": regen_note("Pointer::count, is_root, front / first, back / last, get(usize), len, is_empty, to_buf, with_trailing_token, with_leading_token, concat and PointerBuf::from_tokens (src/pointer.rs, src/pointer/slice.rs), and the iterators themselves: Pointer::tokens, Tokens::new / next, Components::from / next (src/token.rs, src/component.rs) - drained, they yield exactly the token list the other translated functions use as the primitive str_tokens"),
        "runs": [{"suite": "tokens"}, {"suite": "slice", "filter": lambda c: c.startswith("get "), "nontrivial": lambda c: True}],
        "level_text": "Proved in Coq for all lists of byte strings and all valid pointer texts: the transliterated from_tokens (fold of pushes through Token::new) equals the flat-map spec; "
                      "decoded tokens of from_tokens(L) are L, count = |L|; from_tokens(tokens(p)) = p for valid p; from_tokens is injective (text and list determine each other); "
                      "front/back/get/components/is_root/count/split_front/split_back/parent - modelled through split_once/rsplit_once/find as in the code - agree with the list; "
                      "with_trailing_token/with_leading_token/concat are snoc/cons/append; integer tokens are their decimal spelling and valid. "
                      "Tie: every token list over 10 adversarial tokens up to length 4/5 and random lists up to 2000 tokens, build/iterate/accessors compared with the model and with a reference tokeniser.",
        "rule": "suite tokens: every list over {\"\", a, ~, /, ~0, ~1, 01, -, é, a/b} up to length 4 (quick) / 5 (thorough) through from_tokens (ftok) and, spelled as a pointer, through all accessors (acc); "
                "with_trailing/leading_token on the short ones; random lists up to 2000 tokens; plus the get(usize) cases of suite slice (every index in {0..5, usize::MAX-1, usize::MAX} "
                "on every pointer of that suite, debug build, panics observed); non-trivial = at least two tokens or an escape; distinct = distinct case lines",
    },
    "C16": {
        "regen": {"groups": ['Index']},
        "technique": REGEN_TECHNIQUE,
        "level_suffix": regen_note("impl FromStr for Index (through the code points of the text: the CHAR index it computes is proved equal to the BYTE index of the model on well-formed UTF-8), From<ParseIntError> for ParseIndexError, Index::for_len, for_len_incl, for_len_unchecked, Display for Index, and the chain Token::to_index -> try_into -> TryFrom<&Token> for Index (src/index.rs, src/token.rs; std's str::parse::<usize> is the primitive prim_parse_usize of GenTreePrelude.v, faithful to usize::from_str on ARBITRARY text - optional '+', InvalidDigit, overflow detected left to right - and proved equal to the model's parse_usize on the digit strings Index::from_str hands it)"),
        "runs": [{"suite": "index", "profile": "debug"}, {"suite": "index", "profile": "release"}],
        "level_text": "Proved in Coq for all byte strings and all naturals: index_from_str s = Ok(Num n) iff n <= usize::MAX and s is the canonical decimal spelling of n (bridge to the stdlib's "
                      "N.to_uint / N.of_uint round trip), Ok(Next) iff s = \"-\"; parse after Display and Display after parse are identities; each rejection is characterised by an iff "
                      "(LeadingZeros, InvalidCharacter at the first non-digit byte with char() never panicking, InvalidInteger Empty / PosOverflow), the cases are exhaustive and exclusive; "
                      "for_len / for_len_incl / for_len_unchecked exactly as stated, errors carrying (n, i). Token::to_index / is_next / TryFrom forms are literally from_str(encoded) in the source; "
                      "their agreement is checked by the tie (all forms run per case), in debug and release builds.",
        "rule": "suite index: every string over {- 0 1 9 + space a ١} up to length 5 (quick) / 6 (thorough), the 41 decimals within +-20 of 2^64, hand-picked overflow/sign/non-ASCII-digit strings, "
                "every (index,length) pair over {0,1,2,MAX-1,MAX} and Next, random 1-26 digit strings with injected junk; debug and release; non-trivial = non-empty text; distinct = distinct case lines",
    },
    "C02": {
        "regen": {"groups": ['Pointer']},
        "technique": REGEN_TECHNIQUE,
        "level_suffix": regen_note('validate and validate_bytes (src/pointer.rs)'),
        "runs": [{"suite": "parse"}],
        "level_text": "Proved in Coq for all byte strings: the transliterated validate/validate_bytes scanner (with its skip-ahead) accepts exactly the grammar "
                      "(empty, or leading '/' and every '~' followed by '0'/'1'), equivalently '/'-joined valid tokens; each of the eight door models returns that "
                      "decision with the text unchanged (thin by construction: the doors are one-line wrappers, the assurance for them is the per-door tie). "
                      "Per run every string over a 7-symbol alphabet up to length 5/6 (plus pointer-shaped strings one longer and random long ones) goes through all eight real doors "
                      "(incl. from_static under catch_unwind and three serde deserializers) and is compared with the model and an independent recogniser.",
        "rule": "suite parse: every string over {~ / 0 1 - a é} up to length 5 (quick) / 6 (thorough), '/'+string+bad-tail variants, seeded random strings up to 3000 symbols; each through all 8 doors; "
                "non-trivial = contains '~' or an inner '/'; distinct = distinct case lines",
    },
    "C14": {
        "regen": {"groups": ['Pointer', 'Conv', 'Token', 'PtrOps', 'Buf', 'PtrBuild']},
        "technique": REGEN_TECHNIQUE,
        "level_suffix": regen_note('validate, validate_bytes, the ParseError accessors offset / pointer_offset / source_offset / complete_offset / invalid_encoding_len / is_no_leading_slash / is_invalid_encoding, its Diagnostic::labels, and PointerBuf::parse with the report it builds (src/pointer.rs; Diagnostic::into_report is Report::new(error, subject), modelled as the pair)'),
        "runs": [{"suite": "parse"}],
        "level_text": "Proved in Coq for all byte strings: NoLeadingSlash iff the non-empty input does not start with '/'; for InvalidEncoding the two loop counters are carried "
                      "through the skip-ahead as an explicit invariant, giving complete_offset = index of the first '~' not followed by '0'/'1', pointer_offset = the nearest '/' at or before it, "
                      "source_offset = their difference; the Report keeps error and input; the label (offset,len) lies inside the subject and starts at the offending '~' and its computation cannot panic. "
                      "'Formatting never panics' is measured only (Display/Debug of error and report under catch_unwind on every rejected case). Tie: ParseError accessors, Report::{subject,original,decompose} "
                      "and the Label's numbers (parsed from its Debug output) compared per case.",
        "rule": "as C02 (suite parse); for every rejected string the accessors, the report and the label numbers are compared with the model and with an independent first-offence finder",
    },
    "C03": {
        "regen": {"groups": ['Token']},
        "technique": REGEN_TECHNIQUE,
        "level_suffix": regen_note('Token::from_encoded, Token::new, Token::decoded, Token::encoded, into_owned, to_owned (src/token.rs)'),
        "runs": [{"suite": "token"}],
        "level_text": "Proved in Coq for all byte strings, no length bound: the transliterated Token::new equals the escape spec, decoded(new(s)) = s, "
                      "from_encoded accepts exactly the valid tokens, decoded = unescape and encode(decoded e) = e on valid tokens (bijection), and every "
                      "rejection is truthful (offence at the offset / the byte before it, nothing earlier invalid). The model's scanners carry the same "
                      "`escaped` flags as src/token.rs; model = code is checked per run on every string over a 7-symbol alphabet up to length 6/7 plus random long strings.",
        "rule": "suite token: every string over {~ / 0 1 - a é} up to length 6 (quick) / 7 (thorough) as raw text (tnew) and as pre-encoded text (tenc), "
                "then seeded random long strings; non-trivial = text contains '~' or '/'; distinct = distinct case lines",
    },
}


# every suite is run against the debug AND the release build of the harness (overflow checks, debug_assert! and
# other profile-dependent behaviour differ); the model's answers are cached per case line, so the second run costs
# only the execution of the real crate
for _pid, _cfg in PROPERTIES.items():
    if _pid == "C20":
        continue
    _runs = _cfg["runs"]
    _have = {(r["suite"], r.get("profile", "debug")) for r in _runs}
    for r in list(_runs):
        if r.get("profile", "debug") == "debug" and (r["suite"], "release") not in _have:
            r2 = dict(r); r2["profile"] = "release"
            _runs.append(r2)
            _have.add((r["suite"], "release"))
