"""Per-property configuration for ./check (suites, builds, non-triviality rules, trusted base)."""
import re

TRUSTED_BASE = [
    "Coq 8.16.1 kernel (coqc), incl. its vm_compute conversion (Examples, finite C20 theorem, cases.v evaluation); no native_compute; thorough tier re-checks with coqchk",
    "axioms: none -- every property theorem prints 'Closed under the global context' (checked on every run)",
    "the hand-written Gallina model coq/Model/*.v, coq/Bytes.v: tied to /repo only by the per-run correspondence check over the explored cases",
    "correspondence machinery: Rust harness (/verif/harness, path dependency on /repo), Gallina protocol code coq/Proto.v + coq/Driver.v, "
    "OCaml extraction with ExtrOcamlBasic only (Extract Inductive bool/option/unit/list/prod/sumbool/sumor, Extract Inlined Constant andb/orb; "
    "nat, positive, N, Z, Decimal.uint stay Coq inductives), runner/driver.ml, ocamlfind ocamlopt; extraction cross-checked per run by vm_compute inside Coq on a sample",
    "platform facts assumed by the model: 64-bit usize; UTF-8 self-synchronisation (bytes < 0x80 never occur inside a multi-byte sequence); "
    "BTreeMap-backed serde_json::Map / toml::Table (no preserve_order); std str/String/Vec primitives behave as documented",
]

ASSUMPTIONS = [
    "the theorems are about the Gallina model; agreement of model and code is established only on the explored cases (small-scope exhaustive + seeded random), not for all inputs",
    "UB-freedom of the crate's unsafe blocks, memory exhaustion, Display/Debug message texts and miette rendering are not covered",
]

DEFAULT_LEVEL_NOTE = ("Trusted: Coq 8.16.1 kernel; no axioms (Print Assumptions checked per run); the hand-written model is tied to the code only by "
                      "the correspondence check, whose reach is the explored cases (small-scope exhaustive + seeded random); harness, Gallina protocol code, "
                      "ExtrOcamlBasic extraction and the OCaml driver (cross-checked by vm_compute inside Coq on a sample each run); 64-bit usize; documented behaviour of std.")

def hexfields(c):
    return [f for f in c.split(" ") if re.fullmatch(r"x[0-9a-f]*", f)]

NONTRIVIAL = {
    # token: the text contains '~' or '/'
    "token": lambda c: any(("7e" in f or "2f" in f) for f in hexfields(c)),
}

PROPERTIES = {
    "C03": {
        "runs": [{"suite": "token"}],
        "level_text": "Proved in Coq for all byte strings, no length bound: the transliterated Token::new equals the escape spec, decoded(new(s)) = s, "
                      "from_encoded accepts exactly the valid tokens, decoded = unescape and encode(decoded e) = e on valid tokens (bijection), and every "
                      "rejection is truthful (offence at the offset / the byte before it, nothing earlier invalid). The model's scanners carry the same "
                      "`escaped` flags as src/token.rs; model = code is checked per run on every string over a 7-symbol alphabet up to length 6/7 plus random long strings.",
        "rule": "suite token: every string over {~ / 0 1 - a é} up to length 6 (quick) / 7 (thorough) as raw text (tnew) and as pre-encoded text (tenc), "
                "then seeded random long strings; non-trivial = text contains '~' or '/'; distinct = distinct case lines",
    },
}
