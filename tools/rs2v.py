#!/usr/bin/env python3
"""rs2v.py -- translate selected functions of /repo's Rust source into Gallina (coq/Generated/Scanners.v).

This is the 'regenerated model' tie of DESIGN.md section 13: on every run the byte-level scanners and the
small decision functions of the crate are re-translated from the CURRENT source text, and Proofs/GenEquiv.v
re-proves that each generated function equals the hand-written model function the property theorems are
about.  A change to one of these functions therefore changes the generated definition and breaks (or
keeps) the equivalence proof for ALL inputs, not only the explored ones.

Translation scheme (shallow embedding, continuation-passing emission):
  * every function returns `outcome T` (Ret / Panic / OutOfFuel);  `a[i]`, `&a[i..]`, usize subtraction
    and calls to other generated functions are sequenced with explicit matches, Panic on failure
  * `let` / assignment / `+=` become `let x := .. in` (shadowing);  `if`, `match` (with guards, or-patterns,
    constants, bindings), `if let`, `matches!` become if / match chains
  * `while c { b }` becomes a local `fix` on explicit fuel whose parameters are the variables the loop
    assigns;  `for x in <list>` / `for (i, x) in <list>.enumerate()` become structural `fix` over the list;
    the code after the loop is emitted inside the fix (so no loop-result type is needed);
    `return e` is `Ret e` at any depth, `break`/`continue` jump to the after-loop code / the recursive call
  * struct / enum declarations the functions use are translated to Records / Inductives
  * library calls are table driven (str/slice/Vec/Cow primitives of coq/GenPrelude.v); anything unknown is
    an error: the function is reported as NOT TRANSLATABLE (a broken obligation), never skipped silently.
usize addition is translated to unbounded `+` on N (no overflow): the counters involved are bounded by
slice lengths; this is part of the trusted base of the translator.
"""
import sys, os, re, json, hashlib
sys.path.insert(0, os.path.dirname(os.path.abspath(__file__)))
from rsparse import RsError, find_items, lex, Parser


# ---------------------------------------------------------------------------------------- types

ALIASES = {"Pointer": "str", "PointerBuf": "String"}      # newtypes over str / String: modelled as their text
# serde_json::Value / toml::Value are the model's `value` (Value.v); their Map / Table is its sorted association list
VALUE_CTORS = [("Null", [], {"Null"}), ("VBool", ["bool"], {"Bool", "Boolean"}), ("VInt", ["Z"], {"Number", "Integer"}),
               ("VStr", ["String"], {"String"}), ("VOther", ["N"], {"Float", "Datetime"}),
               ("Arr", [("list", ("named", "Value"))], {"Array"}), ("Obj", ["map"], {"Object", "Table"})]


def ty_of_tokens(toks, self_ty=None):
    """Rust type tokens -> internal type"""
    t = [x for x in toks if not x.startswith("'")]
    if t[:2] == ["&", "String"] and len(t) == 2: return "str"          # a borrowed String is a borrowed text (Into<Cow> gives Cow::Borrowed)
    mref = False
    while t and t[0] in ("&", "mut", "&&", "dyn"):
        if t[0] == "mut": mref = True
        t = t[1:]
    if mref:
        # `&mut Value`, `&mut Vec<Value>`, `&mut Map<String, Value>`: a mutable reference INTO a document (lens mode)
        base = ty_of_tokens(t, self_ty)
        return ("mref", base) if base in LENSABLE else base
    s = "".join((x + " ") if x == "mut" else x for x in t)
    s = re.sub(r"^(core|std|alloc)::(ops|borrow|string|vec)::", "", s)
    if s in ("usize", "u8", "u16", "u32", "u64", "char"): return "N"
    if s == "bool": return "bool"
    if s in ("str", "[u8]", "Vec<u8>"): return "str"
    if s in ("Vec<Value>",): return ("list", ("named", "Value"))
    if s in ("Split<char>", "Split<,char>", "core::str::Split<char>", "core::str::Split<,char>"): return ("list", "str")   # str::split('/'): the pieces still to come
    if s in ("Map<String,Value>", "Table", "toml::Table"): return "map"
    if s == "String": return "String"
    if s in ("Cow<str>", "Cow<,str>", "implInto<Cow<str>>", "implInto<Cow<,str>>"): return "Cow"
    if s in ("implInto<Token<>>", "implInto<Token>", "Token<>", "Token<'static>"): return ("named", "Token")
    if s == "()" or s == "": return "unit"
    if s == "Self":
        return self_ty if not isinstance(self_ty, str) else ("named", self_ty)
    if s == "Self::Output" : return "?"
    m = re.fullmatch(r"Option<(.*)>", s)
    if m: return ("opt", ty_of_tokens(retok(m.group(1)), self_ty))
    m = re.fullmatch(r"Result<(.*)>", s)
    if m:
        a, b = split_top(m.group(1))
        return ("res", ty_of_tokens(retok(a), self_ty), ty_of_tokens(retok(b), self_ty))
    m = re.fullmatch(r"\((.*)\)", s)
    if m:
        parts = split_top_all(m.group(1))
        return ("tuple", [ty_of_tokens(retok(p), self_ty) for p in parts])
    m = re.fullmatch(r"([A-Za-z_][A-Za-z0-9_]*)(<.*>)?", s)
    if m:
        name = m.group(1)
        if name in GENERICS: return GENERICS[name]
        return ("named", name)
    raise RsError(f"unsupported type {s!r}")


LENSABLE = [("named", "Value"), ("list", ("named", "Value")), "map"]
GENERICS = {"V": ("named", "Value")}          # type parameters instantiated at the document type (assign::Assigned<'v, V>)


def retok(s):
    return re.findall(r"[A-Za-z_][A-Za-z0-9_]*|&&|::|->|[^\sA-Za-z0-9_]", s)


def split_top_all(s):
    parts, depth, cur = [], 0, ""
    for ch in s:
        if ch in "<([": depth += 1
        if ch in ">)]": depth -= 1
        if ch == "," and depth == 0:
            parts.append(cur); cur = ""
        else:
            cur += ch
    if cur: parts.append(cur)
    return parts


def split_top(s):
    p = split_top_all(s)
    if len(p) != 2: raise RsError(f"expected two type arguments in {s!r}")
    return p


def coq_ty(t):
    if t in ("N", "bool", "Cow", "unit", "Z"): return t
    if t in ("str", "String"): return "str"
    if t == "map": return "Value.obj"
    if t == "?": return "N"          # element type of an `Option` variable initialised with None: every such variable here holds a usize
    if isinstance(t, tuple):
        if t[0] == "named" and t[1] in ALIASES: return "str"
        if t[0] == "named" and t[1] == "Value": return "Value.value"
        if t[0] == "named" and t[1] == "Ordering": return "comparison"
        if t[0] == "list": return f"(list {coq_ty(t[1])})"
        if t[0] == "mref": return f"(lens {coq_ty(t[1])})"
        if t[0] == "vacant": return "(lens Value.obj * str)"
        if t[0] == "opt": return f"(option {coq_ty(t[1])})"
        if t[0] == "res": return f"(result {coq_ty(t[1])} {coq_ty(t[2])})"
        if t[0] == "tuple": return "(" + " * ".join(coq_ty(x) for x in t[1]) + ")"
        if t[0] == "named": return t[1]
    raise RsError(f"no Coq type for {t!r}")


def is_str(t): return t in ("str", "String") or (isinstance(t, tuple) and t[0] == "named" and t[1] in ALIASES)


def ty_eq(a, b):
    if a == "?" or b == "?": return True
    if is_str(a) and is_str(b): return True
    if isinstance(a, tuple) and isinstance(b, tuple) and a[0] == b[0]:
        if a[0] in ("opt", "list", "mref"): return ty_eq(a[1], b[1])
        if a[0] == "res": return ty_eq(a[1], b[1]) and ty_eq(a[2], b[2])
        if a[0] == "tuple": return len(a[1]) == len(b[1]) and all(ty_eq(x, y) for x, y in zip(a[1], b[1]))
        if a[0] == "named": return a[1] == b[1]
    return a == b


# ------------------------------------------------------------------------------------- emitter

class Ctx:
    """translation context of one function"""
    def __init__(self, unit, self_ty, ret_ty, fname):
        self.unit = unit            # Unit: types, consts, known generated functions
        self.self_ty = self_ty
        self.ret_ty = ret_ty
        self.fname = fname
        self.n = 0
        self.nloops = 0
        self.lifted = []            # top-level loops, lambda-lifted to Fixpoints
        self.lifted_keys = []
        self.skip_lets = set()
        self.mut_self = False
        self.state_var = "self"     # the variable returned beside the result (`self` of a &mut self method, `root__` in lens mode)
        self.lens = False
        self.mod = None
        self.poison = frozenset()   # lens-mode: reference variables that may be stale on the current control-flow path
        self.display = False        # translating `fn fmt(&self, f)` of a Display impl: the function returns the TEXT it writes
        self.allocs = 0             # number of syntactic sites in the body that can allocate on the heap (own sites + those of callees)
        self.risky = set()          # integer variables that come from the CALLER (parameters, payloads of Index / Bound / Range values) or are
                                    # computed from one: they can be anywhere in 0..=usize::MAX, so `+` on them is translated CHECKED
                                    # (panics on overflow, the debug-profile meaning); counters derived from lengths stay unbounded
        self.call_map = {}          # per-target: path call -> key of the generated function it dispatches to (trait dispatch on Self)
        self.closure_k = None       # continuation of the innermost inlined closure (`?` / return inside it leave the closure)
        self.loops = []             # stack of (break_code_fn, continue_code_fn)

    def fresh(self, base):
        self.n += 1
        return f"{base}_{self.n}"


def rename_var(node, old, new):
    """rename the free uses of local `old` (as a path expression) to `new` in an AST"""
    if isinstance(node, tuple):
        if node[:1] == ("path",) and node[1] == [old]:
            return ("path", [new])
        return tuple(rename_var(x, old, new) for x in node)
    if isinstance(node, list):
        return [rename_var(x, old, new) for x in node]
    return node


def place_var(e):
    """the variable a place expression denotes: `x`, `self.0` (newtype over String), `&mut x`, `*x`"""
    while e[0] in ("unary", "paren"):
        e = e[2] if e[0] == "unary" else e[1]
    if e[0] == "path" and len(e[1]) == 1: return e[1][0]
    if e[0] == "field" and e[2] == "0" and e[1][0] == "path" and e[1][1] == ["self"]: return "self"
    return None


def assigned_vars(node, acc):
    """names assigned (=, +=, push/extend/insert/.. on a bare variable) anywhere inside node"""
    if isinstance(node, tuple):
        if node and node[0] == "assign":
            v = place_var(node[1])
            if v: acc.add(v)
            elif node[1][0] == "index" and place_var(node[1][1]): acc.add(place_var(node[1][1]))
            else: raise RsError("assignment to a non-variable place is not supported")
        if node and node[0] == "mcall" and node[2] in MUTATORS:
            v = place_var(node[1])
            if v: acc.add(v)
        if node and node[0] == "call" and node[1][0] == "path" and node[1][1][-1] in ("replace", "take") and node[2]:
            v = place_var(node[2][0])
            if v: acc.add(v)
        for x in node[1:]:
            assigned_vars(x, acc)
    elif isinstance(node, list):
        for x in node: assigned_vars(x, acc)


def has_ref(ty):
    """does a value of this type hold a reference into the document?"""
    if isinstance(ty, tuple):
        if ty[0] in ("mref", "vacant"): return True
        if ty[0] == "named": return ty[1] in ("Assigned", "Entry")
        if ty[0] in ("opt", "list"): return has_ref(ty[1])
        if ty[0] == "res": return has_ref(ty[1]) or has_ref(ty[2])
        if ty[0] == "tuple": return any(has_ref(x) for x in ty[1])
    return False


# std methods / functions / macros that can allocate on the heap (C19: the zero-copy operations must not reach one)
ALLOC_METHODS = {"to_string", "to_owned", "into_owned", "collect", "clone", "to_vec", "into_boxed_str", "into_string", "repeat", "join", "concat",
                 "to_uppercase", "to_lowercase", "replace", "replacen", "into_bytes", "to_buf", "into_buf_owned"}
ALLOC_CALLS = {"String::from", "Vec::with_capacity", "String::with_capacity", "Box::new", "String::from_utf8_unchecked", "Vec::from", "Rc::new", "Arc::new"}
ALLOC_MUTATORS = {"push", "push_str", "insert", "insert_str", "extend_from_slice", "extend", "reserve", "split_off"}


POINTER_ONLY = {"is_root", "count", "front", "back", "first", "last", "split_front", "split_back", "parent", "intersection"}
MUTATORS = {"push", "extend_from_slice", "push_str", "insert", "insert_str", "pop", "clear", "split_off", "remove"}


# values of these types are built by the caller of the public API from arbitrary integers
CALLER_INT_TYPES = {"Index", "Bound", "Range", "RangeFrom", "RangeTo", "RangeInclusive", "RangeToInclusive"}
# integer parameters of public functions (any value in 0..=usize::MAX may arrive)
CALLER_INT_PARAMS = {"gen_PointerBuf_replace": ("index",), "gen_Pointer_split_at": ("offset",), "gen_Index_for_len": ("length",),
                     "gen_Index_for_len_incl": ("length",), "gen_Index_for_len_unchecked": ("length",), "gen_parse_index": ("length",)}


def mentions(node, names):
    """does the AST mention one of the variables `names` (as a path expression)?"""
    if isinstance(node, tuple):
        if node[:1] == ("path",) and len(node[1]) == 1 and node[1][0] in names: return True
        return any(mentions(x, names) for x in node[1:])
    if isinstance(node, list):
        return any(mentions(x, names) for x in node)
    return False


def has_jump(node):
    if isinstance(node, tuple):
        if node and node[0] in ("return", "break", "continue", "try"): return True
        if node and node[0] == "closure": return False
        return any(has_jump(x) for x in node[1:])
    if isinstance(node, list):
        return any(has_jump(x) for x in node)
    return False


class Unit:
    """everything parsed from the source files + what has been generated so far"""
    def __init__(self):
        self.structs = {}       # name -> [(field, ty)]
        self.enums = {}         # name -> [(variant, kind, payload)]
        self.consts = {}        # name -> ast
        self.fns = {}           # (impl, name) -> coq name, param types, ret type   (generated so far)
        self.mut_self_fns = set()
        self.alloc_sites = {}   # coq name -> number of allocation sites (transitively)
        self.lens_fns = set()   # functions taking references into a document: return (document afterwards, result)

    def ctor_list(self, ty):
        """constructors of a type: [(coq_ctor, [field types], [field names]|None, rust_variant)]"""
        if ty == "Cow":
            return [("Cow_Borrowed", ["str"], None, "Borrowed"), ("Cow_Owned", ["String"], None, "Owned")]
        if isinstance(ty, tuple) and ty[0] == "opt":
            return [("None", [], None, "None"), ("Some", [ty[1]], None, "Some")]
        if isinstance(ty, tuple) and ty[0] == "res":
            return [("Ok", [ty[1]], None, "Ok"), ("Err", [ty[2]], None, "Err")]
        if isinstance(ty, tuple) and ty[0] == "named" and ty[1] == "Value":
            return [(c, list(ft), None, names) for c, ft, names in VALUE_CTORS]
        if isinstance(ty, tuple) and ty[0] == "named" and ty[1] == "Entry":      # serde_json / toml map::Entry (GenTreePrelude.entry)
            return [("Entry_Occupied", [("mref", ("named", "Value"))], None, "Occupied"), ("Entry_Vacant", [("vacant",)], None, "Vacant")]
        if isinstance(ty, tuple) and ty[0] == "named":
            n = ty[1]
            if n in self.enums:
                out = []
                for v, kind, payload in self.enums[n]:
                    if kind == "unit": out.append((f"{n}_{v}", [], None, v))
                    elif kind == "tuple": out.append((f"{n}_{v}", [ty_of_tokens(p, n) for p in payload], None, v))
                    else: out.append((f"{n}_{v}", [ty_of_tokens(p, n) for _, p in payload], [f for f, _ in payload], v))
                return out
            if n in self.structs:
                fs = self.structs[n]
                return [(f"mk_{n}", [ty_of_tokens(p, n) for _, p in fs], [f for f, _ in fs], n)]
        raise RsError(f"cannot match on a value of type {ty!r}")


def const_value(unit, name):
    e = unit.consts.get(name)
    if e is None: return None
    if e[0] in ("byte", "int", "char"): return (str(e[1]), "N")
    if e[0] in ("bstr", "str"): return (coq_bytes(e[1]), "str")
    return None


def coq_bytes(b):
    return "[" + "; ".join(str(x) for x in b) + "]"


def pure_expr(e):
    """can e be translated without sequencing (no index, no subtraction, no call that may panic)?"""
    k = e[0]
    if k in ("int", "byte", "char", "str", "bstr", "bool", "path"): return True
    if k == "paren": return pure_expr(e[1])
    if k == "unary": return pure_expr(e[2])
    if k == "binary": return e[1] != "-" and pure_expr(e[2]) and pure_expr(e[3])
    if k == "field": return pure_expr(e[1])
    if k == "mcall": return e[2] in PURE_METHODS and pure_expr(e[1]) and all(pure_expr(a) or a[0] == "closure" for a in e[3])
    return False


PURE_METHODS = {"len", "is_empty", "as_bytes", "bytes", "as_str", "clone", "into", "to_string", "into_owned",
                "is_ascii_digit", "is_ascii", "position", "starts_with", "ends_with", "encoded", "to_owned", "as_ref",
                "rsplit_once", "split_once", "find", "strip_prefix", "strip_suffix", "copied", "tokens", "into_inner",
                "checked_add", "zip", "saturating_sub", "checked_sub", "min", "max", "contains", "then_some"}


class Emitter:
    def __init__(self, unit):
        self.u = unit

    # ---- returning, and the path-sensitive set of stale references (lens mode)
    def ret(self, cx, term):
        return f"Ret ({cx.state_var}, {term})" if cx.mut_self else f"Ret {term}"

    def result_ty(self, cx):
        return cx.ret_ty[1][1] if cx.mut_self else cx.ret_ty

    def with_poison(self, cx, add, remove, thunk):
        """emit thunk() as the code that runs AFTER an event that makes the variables `add` stale and `remove` fresh"""
        old = cx.poison
        cx.poison = (old | frozenset(add)) - frozenset(remove)
        try: return thunk()
        finally: cx.poison = old

    def fresh_var(self, cx, name, thunk):
        if name in cx.poison: return self.with_poison(cx, (), (name,), thunk)
        return thunk()

    def self_with_field(self, env, cx, field, new):
        """`self.field = new` in a &mut self method over a struct: the record rebuilt with that field replaced"""
        sty = env["self"][1]
        if not (cx.mut_self and not cx.lens and isinstance(sty, tuple) and sty[0] == "named" and sty[1] in self.u.structs):
            raise RsError("assignment to a field of self outside a &mut self method over a struct")
        sn = sty[1]
        fs = self.u.structs[sn]
        if field not in [f for f, _ in fs]: raise RsError(f"{sn} has no field {field}")
        return f"(mk_{sn} " + " ".join(new if f == field else f"({sn}_{f} self)" for f, _ in fs) + ")"

    def refs_in(self, env):
        return [v for v in env if has_ref(env[v][1])]

    def lens_write(self, x, newcur, env, cx, thunk):
        """write `newcur` through the lens variable x: the document changes, x now shows the new content, every other
        reference variable is stale (conservative: a later use of one is an error, never a silent mistranslation)"""
        if not cx.lens: raise RsError("write through a reference outside lens mode")
        others = [v for v in self.refs_in(env) if v != x]
        return f"let root__ := snd {x} {newcur} in let {x} := lens_set {x} {newcur} in " + self.with_poison(cx, others, (), thunk)

    def lens_write_tmp(self, lt, newcur, env, cx, thunk):
        if not cx.lens: raise RsError("write through a reference outside lens mode")
        return f"let root__ := snd {lt} {newcur} in " + self.with_poison(cx, self.refs_in(env), (), thunk)

    # ---- expressions: tr(e, env, cx, k) -> Gallina code (of type outcome R); k(term, ty) -> code
    def tr(self, e, env, cx, k):
        kind = e[0]
        if kind in ("int", "byte"): return k(str(e[1]), "N")
        if kind == "char":
            if e[1] >= 128: raise RsError("non-ASCII char literal")
            return k(str(e[1]), "N")
        if kind in ("str", "bstr"): return k(coq_bytes(e[1]), "str")
        if kind == "bool": return k("true" if e[1] else "false", "bool")
        if kind == "paren": return self.tr(e[1], env, cx, k)
        if kind == "tuple":
            if not e[1]: return k("tt", "unit")
            return self.tr_list(e[1], env, cx, lambda ts: k("(" + ", ".join(t for t, _ in ts) + ")", ("tuple", [ty for _, ty in ts])))
        if kind == "path": return self.tr_path(e[1], env, cx, k)
        if kind == "unary":
            op = e[1]
            if op == "&mut" and e[2][0] == "index": return self.tr_index(e[2], env, cx, k, want_lens=True)
            if op in ("&", "&mut", "*"): return self.tr(e[2], env, cx, k)
            if op == "!": return self.tr(e[2], env, cx, lambda t, ty: k(f"(negb {t})", "bool"))
            raise RsError(f"unary {op} not supported")
        if kind == "binary": return self.tr_binary(e, env, cx, k)
        if kind == "field": return self.tr_field(e, env, cx, k)
        if kind == "index": return self.tr_index(e, env, cx, k)
        if kind == "mcall": return self.tr_mcall(e, env, cx, k)
        if kind == "call": return self.tr_call(e, env, cx, k)
        if kind == "struct": return self.tr_struct(e, env, cx, k)
        if kind == "block": return self.tr_block(e, env, cx, k)
        if kind == "if": return self.tr_if(e, env, cx, k)
        if kind == "match":
            return self.tr(e[1], env, cx, lambda t, ty: self.tr_arms(t, ty, e[2], env, cx, k))
        if kind == "return":
            if cx.closure_k is not None:
                if e[1] is None: return cx.closure_k("tt", "unit")
                return self.tr(e[1], env, cx, lambda t, ty: cx.closure_k(t, ty))
            if e[1] is None: return self.ret(cx, "tt")
            return self.tr(e[1], env, cx, lambda t, ty: self.ret(cx, self.coerce(t, ty, self.result_ty(cx))))
        if kind == "break":
            if not cx.loops: raise RsError("break outside a loop")
            return cx.loops[-1][0]()
        if kind == "continue":
            if not cx.loops: raise RsError("continue outside a loop")
            return cx.loops[-1][1]()
        if kind == "try":
            def after(t, ty):
                if not (isinstance(ty, tuple) and ty[0] in ("res", "opt")): raise RsError("? on a non-Result/Option")
                # `?` on a syntactic Ok / Some / Err / None needs no match
                if t.startswith("(Ok ") and t.endswith(")") and ty[0] == "res": return k(t[4:-1], ty[1])
                if t.startswith("(Some ") and t.endswith(")") and ty[0] == "opt": return k(t[6:-1], ty[1])
                ck = cx.closure_k            # inside an inlined closure `?` leaves the closure, not the function
                if t.startswith("(Err ") and ty[0] == "res":
                    if ck is not None: return ck(t, ty)
                    rt_ = self.result_ty(cx)
                    if not (isinstance(rt_, tuple) and rt_[0] == "res" and ty_eq(rt_[2], ty[2])): raise RsError("? with an error conversion is not supported")
                    return self.ret(cx, t)
                if t == "None" and ty[0] == "opt": return ck("None", ("opt", "?")) if ck is not None else self.ret(cx, "None")
                v = cx.fresh("v")
                if ty[0] == "opt":
                    none = ck("None", ("opt", "?")) if ck is not None else self.ret(cx, "None")
                    return f"match {t} with Some {v} => {k(v, ty[1])} | None => {none} end"
                er = cx.fresh("e")
                if ck is not None:
                    return f"match {t} with Ok {v} => {k(v, ty[1])} | Err {er} => {ck(f'(Err {er})', ('res', '?', ty[2]))} end"
                rt = self.result_ty(cx)
                if not (isinstance(rt, tuple) and rt[0] == "res" and ty_eq(rt[2], ty[2])):
                    raise RsError("? with an error conversion is not supported")
                return f"match {t} with Ok {v} => {k(v, ty[1])} | Err {er} => {self.ret(cx, f'(Err {er})')} end"
            return self.tr(e[1], env, cx, after)
        if kind == "macro": return self.tr_macro(e, env, cx, k)
        if kind == "cast":
            # integers are unbounded N in the model: a cast to an unsigned type keeps the low bits (`x as u16` = x mod 2^16); widening
            # casts are then the identity on values that fit.  Anything else (signed targets, char, pointers) is refused.
            target = "".join(x for x in e[2] if not x.startswith("'"))
            bits = {"u8": 8, "u16": 16, "u32": 32, "u64": 64, "usize": 64}.get(target)
            if bits is None: raise RsError(f"cast to `{target}` not supported")
            def casted(t, ty):
                if ty != "N": raise RsError(f"cast of a non-integer ({ty!r}) not supported")
                return k(f"({t} mod {2 ** bits})", "N")
            return self.tr(e[1], env, cx, casted)
        if kind == "range": raise RsError("range expression outside an index")
        if kind == "closure": raise RsError("closure in an unsupported position")
        raise RsError(f"expression kind {kind} not supported")

    def tr_list(self, es, env, cx, k, acc=None):
        acc = acc or []
        if not es: return k(acc)
        return self.tr(es[0], env, cx, lambda t, ty: self.tr_list(es[1:], env, cx, k, acc + [(t, ty)]))

    def tr_path(self, segs, env, cx, k):
        if len(segs) == 1:
            n = segs[0]
            if n in env:
                if n in cx.poison: raise RsError(f"`{n}` may be a stale reference here (the document was written through another reference)")
                return k(env[n][0], env[n][1])
            if n == "self" and "self" in env: return k("self", env["self"][1])
            cv = const_value(self.u, n)
            if cv: return k(f"{cv[0]} (* {n} *)" if False else cv[0], cv[1])
            if n == "None": return k("None", ("opt", "?"))
            raise RsError(f"unknown name `{n}`")
        # enum unit variant
        head = segs[0]
        if head == "Self": head = cx.self_ty
        if len(segs) == 2 and head in self.u.enums:
            for v, kind, payload in self.u.enums[head]:
                if v == segs[1]:
                    if kind != "unit": raise RsError(f"{head}::{v} used without arguments")
                    return k(f"{head}_{v}", ("named", head))
        if len(segs) == 2 and head == "Value" and segs[1] == "Null": return k("Null", ("named", "Value"))
        raise RsError(f"unknown path `{'::'.join(segs)}`")

    def tr_binary(self, e, env, cx, k):
        op, l, r = e[1], e[2], e[3]
        if op in ("&&", "||"):
            def after_l(lt, lty):
                if pure_expr(r):
                    return self.tr(r, env, cx, lambda rt, rty: k(f"({lt} {op} {rt})", "bool"))
                # short circuit with an effectful right operand
                if op == "&&":
                    return f"if {lt} then {self.tr(r, env, cx, k)} else {k('false', 'bool')}"
                return f"if {lt} then {k('true', 'bool')} else {self.tr(r, env, cx, k)}"
            return self.tr(l, env, cx, after_l)
        def after(ts):
            (lt, lty), (rt, rty) = ts
            if op == "+":
                if cx.risky and (mentions(l, cx.risky) or mentions(r, cx.risky)):
                    v = cx.fresh("s")
                    return f"match add_chk {lt} {rt} with Ret {v} => {k(v, 'N')} | Panic => Panic | OutOfFuel => OutOfFuel end"
                return k(f"({lt} + {rt})", "N")
            if op == "*": return k(f"({lt} * {rt})", "N")
            if op == "-":
                v = cx.fresh("d")
                return f"match sub_chk {lt} {rt} with Ret {v} => {k(v, 'N')} | Panic => Panic | OutOfFuel => OutOfFuel end"
            if op in ("==", "!="):
                if is_str(lty) or is_str(rty) or lty == "Cow" or rty == "Cow":
                    t = f"(str_eqb {self.coerce(lt, lty, 'str')} {self.coerce(rt, rty, 'str')})"
                elif lty == "bool": t = f"(Bool.eqb {lt} {rt})"
                elif lty == "N" or rty == "N": t = f"({lt} =? {rt})"
                elif isinstance(lty, tuple) and lty[0] == "opt" and isinstance(rty, tuple) and rty[0] == "opt" and \
                        (lty[1] in ("N", "?")) and (rty[1] in ("N", "?")):
                    t = f"(optN_eqb {lt} {rt})"
                else: raise RsError(f"== on type {lty!r} not supported")
                return k(t if op == "==" else f"(negb {t})", "bool")
            if op == "<": return k(f"({lt} <? {rt})", "bool")
            if op == "<=": return k(f"({lt} <=? {rt})", "bool")
            if op == ">": return k(f"({rt} <? {lt})", "bool")
            if op == ">=": return k(f"({rt} <=? {lt})", "bool")
            raise RsError(f"binary operator {op} not supported")
        return self.tr_list([l, r], env, cx, after)

    def tr_field(self, e, env, cx, k):
        def after(t, ty):
            if isinstance(ty, tuple) and ty[0] == "named" and ty[1] in ALIASES and e[2] == "0":
                return k(t, ALIASES[ty[1]])                      # Pointer(str).0 / PointerBuf(String).0
            if is_str(ty) and e[2] == "0":
                return k(t, ty)                                  # the newtype was already erased (e.g. after `.as_ref()`)
            if isinstance(ty, tuple) and ty[0] == "named" and ty[1] in self.u.structs:
                for f, fty in self.u.structs[ty[1]]:
                    if f == e[2]:
                        return k(f"({ty[1]}_{f} {t})", ty_of_tokens(fty, ty[1]))
            if isinstance(ty, tuple) and ty[0] == "tuple" and e[2].isdigit() and len(ty[1]) == 2:
                return k(f"({'fst' if e[2] == '0' else 'snd'} {t})", ty[1][int(e[2])])
            raise RsError(f"field .{e[2]} of type {ty!r} not supported")
        return self.tr(e[1], env, cx, after)

    def tr_index(self, e, env, cx, k, want_lens=False):
        base, idx = e[1], e[2]
        def after_b(bt, bty):
            bt = self.coerce(bt, bty, "str")
            if idx[0] == "range":
                lo, hi, incl = idx[1], idx[2], idx[3]
                if incl: raise RsError("inclusive slice ranges not supported")
                v = cx.fresh("sl")
                def fin(call):
                    return f"match {call} with Ret {v} => {k(v, 'str')} | Panic => Panic | OutOfFuel => OutOfFuel end"
                if lo is None and hi is None: return k(bt, "str")
                if lo is None:
                    return self.tr(hi, env, cx, lambda ht, _: fin(f"slice_to {bt} {ht}"))
                if hi is None:
                    return self.tr(lo, env, cx, lambda lt, _: fin(f"slice_from {bt} {lt}"))
                return self.tr_list([lo, hi], env, cx, lambda ts: fin(f"slice_range {bt} {ts[0][0]} {ts[1][0]}"))
            v = cx.fresh("b")
            return self.tr(idx, env, cx, lambda it, _: f"match idx_get {bt} {it} with Ret {v} => {k(v, 'N')} | Panic => Panic | OutOfFuel => OutOfFuel end")
        def after_any(bt, bty):
            if isinstance(bty, tuple) and bty[0] == "mref" and isinstance(bty[1], tuple) and bty[1][0] == "list" and idx[0] != "range":
                v = cx.fresh("el")
                if want_lens:       # `&mut v[idx]`: a reference to the element (panics out of range like the read)
                    return self.tr(idx, env, cx, lambda it, _: f"match lens_index {bt} {it} with Ret {v} => {k(v, ('mref', bty[1][1]))} | Panic => Panic | OutOfFuel => OutOfFuel end")
                return self.tr(idx, env, cx, lambda it, _: f"match list_get (fst {bt}) {it} with Ret {v} => {k(v, bty[1][1])} | Panic => Panic | OutOfFuel => OutOfFuel end")
            if isinstance(bty, tuple) and bty[0] == "list" and idx[0] != "range":
                v = cx.fresh("el")
                return self.tr(idx, env, cx, lambda it, _: f"match list_get {bt} {it} with Ret {v} => {k(v, bty[1])} | Panic => Panic | OutOfFuel => OutOfFuel end")
            return after_b(bt, bty)
        return self.tr(base, env, cx, after_any)

    def coerce(self, t, frm, to):
        if frm == to: return t
        if is_str(frm) and is_str(to): return t
        if frm == "Cow" and is_str(to): return f"(cow_text {t})"
        if frm == ("named", "Token") and is_str(to): return f"(cow_text (Token_inner {t}))"
        if frm == "str" and to == "Cow": return f"(Cow_Borrowed {t})"
        if frm == "String" and to == "Cow": return f"(Cow_Owned {t})"
        if frm == ("list", "str") and to == ("named", "Tokens"): return f"(mk_Tokens {t})"     # `p.tokens()` stored in a field (Components)
        if frm == "map" and to == ("named", "Value"): return f"(Obj {t})"                  # `Table::default().into()`
        if isinstance(frm, tuple) and frm[0] == "list" and to == ("named", "Value"): return f"(Arr {t})"
        if isinstance(frm, tuple) and isinstance(to, tuple) and frm[0] == to[0]:
            if frm[0] == "res":
                if (frm[1] == to[1] or frm[1] == "?" ) and (frm[2] == to[2] or frm[2] == "?"): return t
                # coerce payloads through a match
                return (f"(match {t} with Ok v__ => Ok {self.coerce('v__', frm[1] if frm[1] != '?' else to[1], to[1])} "
                        f"| Err e__ => Err {self.coerce('e__', frm[2] if frm[2] != '?' else to[2], to[2])} end)")
            if frm[0] == "opt":
                if frm[1] == to[1] or frm[1] == "?": return t
                return f"(option_map (fun v__ => {self.coerce('v__', frm[1], to[1])}) {t})"
            if frm[0] == "named" and frm[1] == to[1]: return t
            if frm[0] == "tuple" and frm == to: return t
        if frm == "?" or to == "?": return t
        if ty_eq(frm, to): return t
        if isinstance(to, tuple) and to[0] == "opt" and not (isinstance(frm, tuple) and frm[0] == "opt"):
            return f"(Some {self.coerce(t, frm, to[1])})"          # `.into()` : T -> Option<T>
        raise RsError(f"cannot coerce {frm!r} to {to!r}")

    # ---- method calls
    def closure1(self, c, arg_ty, env, cx):
        """a one-parameter pure closure as a Gallina fun"""
        if c[0] != "closure" or len(c[1]) != 1: raise RsError("expected a one-parameter closure")
        p = c[1][0]
        while p[0] == "p_ref": p = p[1]
        if p[0] != "p_bind": raise RsError("closure parameter must be a plain name")
        if not pure_expr(c[2]): raise RsError("closure body must be a pure expression")
        env2 = dict(env); env2[p[1]] = (p[1], arg_ty)
        body = self.tr(c[2], env2, cx, lambda t, ty: t)
        return f"(fun {p[1]} => {body})"

    def apply_closure(self, c, args, env, cx, k):
        """inline application of a closure literal to argument terms [(term, ty)]; the body may be effectful"""
        if c[0] == "path" and c[1][-2:] == ["Token", "to_owned"] and len(args) == 1 and is_str(args[0][1]):
            return k(f"(mk_Token (Cow_Owned {args[0][0]}))", ("named", "Token"))     # an item of `tokens()` is its encoded text
        if c[0] == "path" and c[1][-2:] == ["Into", "into"] and len(args) == 1:
            return k(args[0][0], args[0][1])
        if c[0] == "path":                      # `map(Index::Num)`, `map_err(ParseIndexError::from)`: a function given by name
            names = [cx.fresh("a") for _ in args]
            c = ("closure", [("p_bind", n) for n in names], ("call", c, [("path", [n]) for n in names]))
        if c[0] != "closure": raise RsError("expected a closure literal")
        if len(c[1]) != len(args): raise RsError("closure arity mismatch")
        env2 = dict(env)
        pre = ""
        for p, (t, ty) in zip(c[1], args):
            while p[0] == "p_ref": p = p[1]
            if p[0] == "p_wild": continue
            if p[0] == "p_bind":
                env2[p[1]] = (p[1], ty); pre += f"let {p[1]} := {t} in "
            elif p[0] == "p_tuple":
                if not (isinstance(ty, tuple) and ty[0] == "tuple" and len(ty[1]) == len(p[1])): raise RsError("tuple closure parameter on a non-tuple")
                names = []
                for sp, sty in zip(p[1], ty[1]):
                    while sp[0] == "p_ref": sp = sp[1]
                    if sp[0] == "p_bind": names.append(sp[1]); env2[sp[1]] = (sp[1], sty)
                    elif sp[0] == "p_wild": names.append("_")
                    else: raise RsError("nested pattern in a closure parameter")
                pre += f"let '({', '.join(names)}) := {t} in "
            else: raise RsError("closure parameter pattern not supported")
        saved = cx.closure_k
        def k2(t, ty):               # the code after the closure belongs to the enclosing scope again
            inner = cx.closure_k; cx.closure_k = saved
            try: return k(t, ty)
            finally: cx.closure_k = inner
        cx.closure_k = k2
        try: return pre + self.tr(c[2], env2, cx, k2)
        finally: cx.closure_k = saved

    def pure_closure_term(self, c, x, xty, env, cx):
        """if applying closure c to the variable x needs no sequencing (no panics, no calls of generated functions) return
        (body term with x free, type); else None.  Lets the Option / Result combinators emit one term instead of duplicating
        the continuation."""
        got = {}
        def kk(t, ty):
            got["ty"] = ty
            return "\0" + t
        try:
            code = self.apply_closure(c, [(x, xty)], env, cx, kk)
        except RsError:
            return None
        if "ty" not in got or code.count("\0") != 1: return None
        pre, term = code.split("\0")
        if "match " in pre or " if " in (" " + pre): return None
        return pre + term, got["ty"]

    def tr_mcall(self, e, env, cx, k):
        recv, name, args = e[1], e[2], e[3]
        base = re.sub(r"::<.*$", "", name)
        # iterator chains recognised structurally
        if base == "position" and recv[0] == "mcall" and recv[2] == "bytes" and not recv[3]:
            return self.tr(recv[1], env, cx, lambda t, ty: k(f"(positionN {self.closure1(args[0], 'N', env, cx)} {self.coerce(t, ty, 'str')})", ("opt", "N")))
        if base == "position" and recv[0] == "mcall" and recv[2] == "chars" and not recv[3]:         # s.chars().position(f): a CHAR index
            return self.tr(recv[1], env, cx, lambda t, ty: k(f"(chars_positionN {self.closure1(args[0], 'N', env, cx)} {self.coerce(t, ty, 'str')})", ("opt", "N")))
        if base == "get" and recv[0] == "mcall" and recv[2] == "as_bytes" and len(args) == 1:      # s.as_bytes().get(i)
            return self.tr(recv[1], env, cx, lambda t, ty: self.tr(args[0], env, cx, lambda it, _: k(f"(nth_N {self.coerce(t, ty, 'str')} {it})", ("opt", "N"))))
        if base == "nth" and recv[0] == "mcall" and recv[2] == "tokens" and len(args) == 1:        # p.tokens().nth(i)
            return self.tr(recv[1], env, cx, lambda t, ty: self.tr(args[0], env, cx, lambda it, _: k(
                f"(option_map (fun t__ => mk_Token (Cow_Borrowed t__)) (nth_N (str_tokens {self.coerce(t, ty, 'str')}) {it}))", ("opt", ("named", "Token")))))
        if base == "nth" and recv[0] == "mcall" and recv[2] == "chars" and not recv[3] and len(args) == 1:   # s.chars().nth(i): a CODE POINT
            return self.tr(recv[1], env, cx, lambda t, ty: self.tr(args[0], env, cx, lambda it, _: k(
                f"(nth_N (str_chars {self.coerce(t, ty, 'str')}) {it})", ("opt", "N"))))
        if base == "count" and recv[0] == "mcall" and recv[2] == "tokens" and not args:           # p.tokens().count()
            return self.tr(recv[1], env, cx, lambda t, ty: k(f"(len (str_tokens {self.coerce(t, ty, 'str')}))", "N"))
        if base == "split_off" and len(args) == 1 and place_var(recv) in env:
            cx.allocs += 1
            x = place_var(recv)
            sp = cx.fresh("sp")
            return self.tr(args[0], env, cx, lambda at, _: f"match str_split_off {x} {at} with Ret {sp} => let {x} := (fst {sp}) in {k(f'(snd {sp})', 'String')} | Panic => Panic | OutOfFuel => OutOfFuel end")
        if cx.display and base == "fmt" and len(args) == 1:
            def shown(t, ty):
                txt = self.display_text(t, ty)
                if txt is None: raise RsError(f"Display of a value of type {ty!r} not supported")
                return k(txt, "str")
            return self.tr(recv, env, cx, shown)
        if cx.display and base == "write_str" and len(args) == 1 and recv == ("path", ["f"]):
            return self.tr(args[0], env, cx, lambda t, ty: k(self.coerce(t, ty, "str"), "str"))
        if base == "next" and not args:
            # Iterator::next on the pieces of a `split`: a local variable, or the single field of `self` in a &mut self method
            x = place_var(recv) if recv[0] == "path" else None
            if x in env and isinstance(env[x][1], tuple) and env[x][1][0] == "list":
                h, r = cx.fresh("hd"), cx.fresh("tl")
                ety = env[x][1][1]
                return (f"match {x} with [] => {k('None', ('opt', ety))} | {h} :: {r} => let {x} := {r} in {k(f'(Some {h})', ('opt', ety))} end")
            if recv[0] == "field" and recv[1] == ("path", ["self"]) and cx.mut_self and not cx.lens and isinstance(env["self"][1], tuple) and env["self"][1][0] == "named":
                sn = env["self"][1][1]
                fs = self.u.structs.get(sn)
                if fs and len(fs) == 1 and fs[0][0] == recv[2]:
                    fty = ty_of_tokens(fs[0][1], sn)
                    if isinstance(fty, tuple) and fty[0] == "list":
                        h, r = cx.fresh("hd"), cx.fresh("tl")
                        return (f"match {sn}_{recv[2]} self with [] => {k('None', ('opt', fty[1]))} "
                                f"| {h} :: {r} => let self := mk_{sn} {r} in {k(f'(Some {h})', ('opt', fty[1]))} end")
        if recv[0] == "field" and recv[1] == ("path", ["self"]) and "self" in env and cx.mut_self and not cx.lens:
            sty = env["self"][1]
            if isinstance(sty, tuple) and sty[0] == "named" and sty[1] in self.u.structs:
                for f, t_ in self.u.structs[sty[1]]:
                    if f == recv[2]:
                        fty = ty_of_tokens(t_, sty[1])
                        tn = fty[1] if isinstance(fty, tuple) and fty[0] == "named" else None
                        if tn and (tn, base) in self.u.fns and (tn, base) in self.u.mut_self_fns:
                            coqname, ptys, rty_ = self.u.fns[(tn, base)]
                            r = cx.fresh("ms")
                            return self.tr_list(args, env, cx, lambda ts:
                                f"match {coqname} ({sty[1]}_{f} self) {' '.join(self.coerce(t, ty, pty) for (t, ty), pty in zip(ts, ptys[1:]))} with "
                                f"Ret {r} => let self := {self.self_with_field(env, cx, f, f'(fst {r})')} in {k(f'(snd {r})', rty_[1][1])} "
                                f"| Panic => Panic | OutOfFuel => OutOfFuel end")
        if base == "then_" and len(args) == 1 and args[0][0] == "closure":      # bool::then (`then` is mangled by the lexer)
            return self.tr(recv, env, cx, lambda bt, _: f"if {bt} then {self.apply_closure(args[0], [], env, cx, lambda t, ty: k(f'(Some {t})', ('opt', ty)))} else {k('None', ('opt', '?'))}")
        def after(rt, rty):
            if base in ALLOC_METHODS and not (base == "clone" and rty != "String"):
                cx.allocs += 1
            tyname = rty[1] if isinstance(rty, tuple) and rty[0] == "named" else None
            if tyname == "Token" and base == "try_into" and not args and ("IndexFromRefToken", "try_from") in self.u.fns:
                # `token.try_into()` at type Result<Index, _>: impl TryFrom<&Token<'_>> for Index
                return self.call_generated_terms(("IndexFromRefToken", "try_from"), [(rt, rty)], cx, k, env)
            if tyname and (tyname, base) in self.u.fns and base not in ("tokens", "to_index"):
                # (`p.tokens()` stays the primitive [str_tokens] in callers; Proofs/GenEquivPtrOps.v proves the translated
                #  Pointer::tokens + Tokens::next to produce exactly that list)
                return self.call_generated((tyname, base), [(rt, rty)], args, env, cx, k)
            if (tyname == "PointerBuf" or (rty in ("str", "String") and base in POINTER_ONLY)) and ("Pointer", base) in self.u.fns and base != "tokens":
                # Deref<Target = Pointer>; or the newtype was erased earlier and the method exists on Pointer only
                return self.call_generated(("Pointer", base), [(rt, ("named", "Pointer"))], args, env, cx, k)
            # ---- Pointer::get(range): dispatch on the syntactic form of the range (PointerIndex impls)
            if tyname == "Pointer" and base == "get" and len(args) == 1 and args[0][0] == "range":
                lo, hi, incl = args[0][1], args[0][2], args[0][3]
                form = ("Range" if lo and hi and not incl else "RangeFrom" if lo and not hi else "RangeTo" if hi and not lo and not incl
                        else "RangeInclusive" if lo and hi else "RangeToInclusive" if hi else "RangeFull")
                key = (form, "get")
                if key not in self.u.fns: raise RsError(f"Pointer::get with a {form} is not among the translated functions")
                parts = [x for x in (lo, hi) if x is not None]
                return self.tr_list(parts, env, cx, lambda ts: self.call_generated_terms(
                    key, [(f"(mk_{form} {' '.join(t for t, _ in ts)})" if ts else f"mk_{form}", ("named", form)), (rt, rty)], cx, k))
            if tyname == "Pointer" and base == "get" and len(args) == 1 and args[0][0] != "range" and ("usize", "get") in self.u.fns:
                return self.tr(args[0], env, cx, lambda it, ity: self.call_generated_terms(("usize", "get"), [(it, "N"), (rt, rty)], cx, k))
            # ---- primitives on Token (hand-modelled: Index::from_str is an iterator chain over chars)
            if tyname == "Token" and base == "to_index" and not args:
                return k(f"(prim_to_index {rt})", ("res", ("named", "Index"), ("named", "ParseIndexError")))
            if tyname == "Token" and base == "to_string" and not args and ("Token", "decoded") in self.u.fns:
                return self.call_generated_terms(("Token", "decoded"), [(rt, rty)], cx, lambda t, ty: k(f"(cow_text {t})", "String"))
            # ---- references into the document (lens mode): Vec<Value> / Map / Entry behind `&mut`
            if isinstance(rty, tuple) and rty[0] == "mref":
                inner = rty[1]
                isvar = rt in env and env[rt][0] == rt
                if isinstance(inner, tuple) and inner[0] == "list":
                    if base == "len" and not args: return k(f"(len (fst {rt}))", "N")
                    if base == "is_empty" and not args: return k(f"(len (fst {rt}) =? 0)", "bool")
                    if base == "remove" and len(args) == 1 and isvar:            # Vec::remove: panics when idx >= len
                        v = cx.fresh("rm")
                        return self.tr(args[0], env, cx, lambda it, _:
                            f"match list_get (fst {rt}) {it} with Ret {v} => " +
                            self.lens_write(rt, f"(remove_nth (N.to_nat {it}) (fst {rt}))", env, cx, lambda: k(v, inner[1])) +
                            " | Panic => Panic | OutOfFuel => OutOfFuel end")
                    if base == "push" and len(args) == 1 and isvar:
                        return self.tr(args[0], env, cx, lambda at, aty:
                            self.lens_write(rt, f"(fst {rt} ++ [{self.coerce(at, aty, inner[1])}])", env, cx, lambda: k("tt", "unit")))
                if inner == "map":
                    if base == "get_mut" and len(args) == 1:
                        return self.tr(args[0], env, cx, lambda at, aty: k(f"(lens_get_mut {rt} {self.coerce(at, aty, 'str')})", ("opt", ("mref", ("named", "Value")))))
                    if base == "get" and len(args) == 1:
                        return self.tr(args[0], env, cx, lambda at, aty: k(f"(obj_lookup {self.coerce(at, aty, 'str')} (fst {rt}))", ("opt", ("named", "Value"))))
                    if base == "len" and not args: return k(f"(len (fst {rt}))", "N")
                    if base == "is_empty" and not args: return k(f"(len (fst {rt}) =? 0)", "bool")
                    if base == "contains_key" and len(args) == 1:
                        return self.tr(args[0], env, cx, lambda at, aty: k(f"(match obj_lookup {self.coerce(at, aty, 'str')} (fst {rt}) with Some _ => true | None => false end)", "bool"))
                    if base == "entry" and len(args) == 1:
                        return self.tr(args[0], env, cx, lambda at, aty: k(f"(lens_entry {rt} {self.coerce(at, aty, 'str')})", ("named", "Entry")))
                    if base == "remove" and len(args) == 1 and isvar:            # Map::remove(key) -> Option<Value>
                        v = cx.fresh("rm"); kk = cx.fresh("key")
                        return self.tr(args[0], env, cx, lambda at, aty:
                            f"let {kk} := {self.coerce(at, aty, 'str')} in let {v} := obj_lookup {kk} (fst {rt}) in " +
                            self.lens_write(rt, f"(obj_remove {kk} (fst {rt}))", env, cx, lambda: k(v, ("opt", ("named", "Value")))))
                    if base == "insert" and len(args) == 2 and isvar:            # Map::insert(key, v) -> Option<Value>
                        v = cx.fresh("old"); kk = cx.fresh("key")
                        return self.tr_list(args, env, cx, lambda ts:
                            f"let {kk} := {self.coerce(ts[0][0], ts[0][1], 'str')} in let {v} := obj_lookup {kk} (fst {rt}) in " +
                            self.lens_write(rt, f"(obj_insert {kk} {ts[1][0]} (fst {rt}))", env, cx, lambda: k(v, ("opt", ("named", "Value")))))
                if inner == ("named", "Value"):
                    if base == "into_mut" and not args: return k(rt, rty)        # OccupiedEntry::into_mut
                    if base == "resolve_mut" and len(args) == 1 and (("mod", cx.mod), "resolve_mut") in self.u.fns:
                        return self.call_generated((("mod", cx.mod), "resolve_mut"), [(rt, rty)], args, env, cx, k)
                raise RsError(f"method .{name}() through a reference to {inner!r} not supported")
            if rty == ("vacant",) and base == "insert" and len(args) == 1:       # VacantEntry::insert(v)
                return self.tr(args[0], env, cx, lambda at, aty:
                    self.lens_write_tmp(f"(fst {rt})", f"(obj_insert (snd {rt}) {self.coerce(at, aty, ('named', 'Value'))} (fst (fst {rt})))", env, cx, lambda: k("tt", "unit")))
            if is_str(rty) and base == "resolve_mut" and len(args) == 1 and cx.lens and (("mod", cx.mod), "resolve_mut") in self.u.fns:
                # Pointer::resolve_mut(value) = value.resolve_mut(self)  (trait dispatch to the backend of this module)
                return self.tr(args[0], env, cx, lambda at, aty: self.call_generated_terms((("mod", cx.mod), "resolve_mut"), [(at, aty), (rt, rty)], cx, k, env))
            # ---- Result combinators
            if isinstance(rty, tuple) and rty[0] == "res" and base == "ok" and not args:
                y = cx.fresh("o")
                return k(f"(match {rt} with Ok {y} => Some {y} | Err _ => None end)", ("opt", rty[1]))
            if isinstance(rty, tuple) and rty[0] == "res":
                x = cx.fresh("o")
                if base == "map_err" and len(args) == 1:
                    er = self.apply_closure(args[0], [(x, rty[2])], env, cx, lambda t, ty: k(f"(Err {t})", ("res", rty[1], ty)))
                    y = cx.fresh("o")
                    return f"match {rt} with Ok {y} => {k(f'(Ok {y})', ('res', rty[1], '?'))} | Err {x} => {er} end"
                if base == "map" and len(args) == 1:
                    okc = self.apply_closure(args[0], [(x, rty[1])], env, cx, lambda t, ty: k(f"(Ok {t})", ("res", ty, rty[2])))
                    y = cx.fresh("o")
                    return f"match {rt} with Ok {x} => {okc} | Err {y} => {k(f'(Err {y})', ('res', '?', rty[2]))} end"
            if isinstance(rty, tuple) and rty[0] == "opt" and base == "ok_or" and len(args) == 1:
                x = cx.fresh("o")
                return f"match {rt} with Some {x} => {k(f'(Ok {x})', ('res', rty[1], '?'))} | None => {self.tr(args[0], env, cx, lambda t, ty: k(f'(Err {t})', ('res', rty[1], ty)))} end"
            # ---- Map / Table and Vec<Value>
            if rty == "map" and base == "contains_key" and len(args) == 1:
                return self.tr(args[0], env, cx, lambda at, aty: k(f"(match obj_lookup {self.coerce(at, aty, 'str')} {rt} with Some _ => true | None => false end)", "bool"))
            if rty == "map" and base in ("get", "get_mut") and len(args) == 1:
                return self.tr(args[0], env, cx, lambda at, aty: k(f"(obj_lookup {self.coerce(at, aty, 'str')} {rt})", ("opt", ("named", "Value"))))
            if isinstance(rty, tuple) and rty[0] == "list" and base == "len" and not args:
                return k(f"(len {rt})", "N")
            if isinstance(rty, tuple) and rty[0] == "list" and base in ("collect", "into_iter", "iter") and not args:
                return k(rt, rty)
            if isinstance(rty, tuple) and rty[0] == "list" and base == "get" and len(args) == 1:
                return self.tr(args[0], env, cx, lambda it, _: k(f"(nth_N {rt} {it})", ("opt", rty[1])))
            if isinstance(rty, tuple) and rty[0] == "list" and base == "map" and len(args) == 1 and args[0][0] == "path" and args[0][1][-2:] == ["Into", "into"]:
                return k(rt, rty)
            # ---- Option combinators (closure bodies may be effectful: emitted in place)
            if isinstance(rty, tuple) and rty[0] == "opt":
                x = cx.fresh("o")
                if base == "map" and len(args) == 1:
                    pc = self.pure_closure_term(args[0], x, rty[1], env, cx)
                    if pc:
                        return k(f"(option_map (fun {x} => {pc[0]}) {rt})", ("opt", pc[1]))
                    some = self.apply_closure(args[0], [(x, rty[1])], env, cx, lambda t, ty: k(f"(Some {t})", ("opt", ty)))
                    return f"match {rt} with Some {x} => {some} | None => {k('None', ('opt', '?'))} end"
                if base == "map_or_else" and len(args) == 2:
                    some = self.apply_closure(args[1], [(x, rty[1])], env, cx, k)
                    none = self.apply_closure(args[0], [], env, cx, k)
                    return f"match {rt} with Some {x} => {some} | None => {none} end"
                if base == "filter" and len(args) == 1:
                    some = self.apply_closure(args[0], [(x, rty[1])], env, cx,
                                              lambda t, ty: f"if {t} then {k(f'(Some {x})', rty)} else {k('None', rty)}")
                    return f"match {rt} with Some {x} => {some} | None => {k('None', rty)} end"
                if base in ("copied", "cloned"): return k(rt, rty)
                if base == "or_else" and len(args) == 1:
                    return f"match {rt} with Some {x} => {k(f'(Some {x})', rty)} | None => {self.apply_closure(args[0], [], env, cx, k)} end"
                if base == "or" and len(args) == 1:
                    return f"match {rt} with Some {x} => {k(f'(Some {x})', rty)} | None => {self.tr(args[0], env, cx, k)} end"
                if base in ("expect", "unwrap") and len(args) <= 1:                    # panics on None
                    return f"match {rt} with Some {x} => {k(x, rty[1])} | None => Panic end"
                if base == "unwrap_or" and len(args) == 1:
                    return f"match {rt} with Some {x} => {k(x, rty[1])} | None => {self.tr(args[0], env, cx, k)} end"
                if base == "unwrap_or_else" and len(args) == 1:
                    return f"match {rt} with Some {x} => {k(x, rty[1])} | None => {self.apply_closure(args[0], [], env, cx, k)} end"
                if base == "unwrap_or_default" and not args and rty[1] == "N":
                    return k(f"(match {rt} with Some {x} => {x} | None => 0 end)", "N")
                if base == "and_then" and len(args) == 1:
                    return f"match {rt} with Some {x} => {self.apply_closure(args[0], [(x, rty[1])], env, cx, k)} | None => {k('None', ('opt', '?'))} end"
                if base == "is_some_and" and len(args) == 1:
                    return f"match {rt} with Some {x} => {self.apply_closure(args[0], [(x, rty[1])], env, cx, k)} | None => {k('false', 'bool')} end"
                if base == "is_some": return k(f"(match {rt} with Some _ => true | None => false end)", "bool")
                if base == "is_none": return k(f"(match {rt} with Some _ => false | None => true end)", "bool")
            if base in ("eq", "ne") and is_str(rty) and len(args) == 1:                    # str / String PartialEq: the bytes
                neg = (lambda x: f"(negb {x})") if base == "ne" else (lambda x: x)
                return self.tr(args[0], env, cx, lambda at, aty: k(neg(f"(str_eqb {rt} {self.coerce(at, aty, 'str')})"), "bool"))
            if base == "partial_cmp" and is_str(rty) and len(args) == 1:                   # str PartialOrd: bytewise lexicographic, always Some
                return self.tr(args[0], env, cx, lambda at, aty: k(f"(Some (str_cmp {rt} {self.coerce(at, aty, 'str')}))", ("opt", ("named", "Ordering"))))
            if base == "cmp" and is_str(rty) and len(args) == 1:
                return self.tr(args[0], env, cx, lambda at, aty: k(f"(str_cmp {rt} {self.coerce(at, aty, 'str')})", ("named", "Ordering")))
            if base in ("len",) and (is_str(rty) or rty == "Cow"): return k(f"(len {self.coerce(rt, rty, 'str')})", "N")
            if base == "is_empty" and (is_str(rty) or rty == "Cow"): return k(f"(len {self.coerce(rt, rty, 'str')} =? 0)", "bool")
            if base in ("as_bytes", "as_str", "as_ref", "bytes"):
                if rty == "Cow": return k(f"(cow_text {rt})", "str")
                if is_str(rty): return k(rt, "str")
            if base in ("clone",): return k(rt, rty)
            if base == "into": return k(rt, rty)          # target type decided by the consumer (coerce)
            if base in ("to_string", "to_owned") and is_str(rty): return k(rt, "String")
            if base == "into_owned" and rty == "Cow": return k(f"(cow_text {rt})", "String")
            if base == "is_ascii_digit" and rty == "N": return k(f"(is_digit {rt})", "bool")
            if base == "encoded" and is_str(rty): return k(rt, "str")     # items of `tokens()` are modelled by their encoded text
            if base == "tokens" and is_str(rty) and not args: return k(f"(str_tokens {rt})", ("list", "str"))
            if base == "zip" and isinstance(rty, tuple) and rty[0] == "list" and len(args) == 1:
                def zipped(at, aty):
                    if not (isinstance(aty, tuple) and aty[0] == "list"): raise RsError("zip with a non-list")
                    return k(f"(combine {rt} {at})", ("list", ("tuple", [rty[1], aty[1]])))
                return self.tr(args[0], env, cx, zipped)
            if base == "map_or" and isinstance(rty, tuple) and rty[0] == "opt" and len(args) == 2:
                x = cx.fresh("o")
                some = self.apply_closure(args[1], [(x, rty[1])], env, cx, k)
                return f"match {rt} with Some {x} => {some} | None => {self.tr(args[0], env, cx, k)} end"
            if name == "parse::<usize>" and is_str(rty) and not args:
                return k(f"(prim_parse_usize {rt})", ("res", "N", ("named", "ParseIntError")))
            if rty == "N" and len(args) == 1 and base in ("saturating_sub", "checked_sub", "min", "max", "saturating_add", "wrapping_add"):
                fn = {"saturating_sub": "(fun a b => a - b)", "min": "N.min", "max": "N.max",
                      "checked_sub": "(fun a b => if a <? b then None else Some (a - b))",
                      "saturating_add": "(fun a b => N.min (a + b) USIZE_MAX)", "wrapping_add": "(fun a b => (a + b) mod (USIZE_MAX + 1))"}[base]
                return self.tr(args[0], env, cx, lambda at, _: k(f"({fn} {rt} {at})", ("opt", "N") if base == "checked_sub" else "N"))
            if rty == "bool" and base == "then_some" and len(args) == 1:
                return self.tr(args[0], env, cx, lambda at, aty: k(f"(if {rt} then Some {at} else None)", ("opt", aty)))
            if base == "checked_add" and rty == "N" and len(args) == 1:
                return self.tr(args[0], env, cx, lambda at, _: k(f"(checked_add_usize {rt} {at})", ("opt", "N")))
            if base == "into_report" and tyname == "ParseError" and len(args) == 1:
                return self.tr(args[0], env, cx, lambda at, aty: k(f"(mk_RichParseError {rt} {self.coerce(at, aty, 'str')})", ("named", "RichParseError")))
            if base == "into_inner" and tyname == "RangeInclusive":
                return k(f"(RangeInclusive_start {rt}, RangeInclusive_end_ {rt})", ("tuple", ["N", "N"]))
            if is_str(rty) or rty == "Cow":
                st = self.coerce(rt, rty, "str")
                def arg_as_str(at, aty): return at if (is_str(aty) or aty == "Cow") and not re.fullmatch(r"\d+", at) else "[" + at + "]"
                if base in ("starts_with", "ends_with", "strip_prefix", "strip_suffix") and len(args) == 1:
                    bty = "bool" if base.endswith("with") else ("opt", "str")
                    return self.tr(args[0], env, cx, lambda at, aty: k(f"({base} {st} {arg_as_str(self.coerce(at, aty, 'str') if aty != 'N' else at, aty)})", bty))
                if base in ("rsplit_once", "split_once") and len(args) == 1 and args[0][0] == "char":
                    return k(f"({base} {args[0][1]} {st})", ("opt", ("tuple", ["str", "str"])))
                if base == "split" and len(args) == 1 and args[0][0] == "char":
                    return k(f"(split_on {args[0][1]} {st})", ("list", "str"))
                if base == "contains" and len(args) == 1 and args[0][0] == "char":
                    return k(f"(match findN {args[0][1]} {st} with Some _ => true | None => false end)", "bool")
                if base == "find" and len(args) == 1 and args[0][0] == "char":
                    return k(f"(findN {args[0][1]} {st})", ("opt", "N"))
                if base == "rfind" and len(args) == 1 and args[0][0] == "char":
                    return k(f"(rfindN {args[0][1]} {st})", ("opt", "N"))
                if base == "split_at" and len(args) == 1:
                    v = cx.fresh("sp")
                    return self.tr(args[0], env, cx, lambda at, _: f"match str_split_at {st} {at} with Ret {v} => {k(v, ('tuple', ['str', 'str']))} | Panic => Panic | OutOfFuel => OutOfFuel end")
            raise RsError(f"method .{name}() on {rty!r} not supported")
        return self.tr(recv, env, cx, after)

    def finish_call(self, key, coqname, a, rty, cx, k, env):
        cx.allocs += self.u.alloc_sites.get(coqname, 0)
        v = cx.fresh("r")
        if key in self.u.lens_fns:
            # the callee may have written through the references it was given: take the document it returns, and treat every
            # reference variable of the caller as stale
            if not cx.lens: raise RsError(f"call of the lens-mode function {coqname} outside lens mode")
            if env is None: raise RsError("internal: lens call without an environment")
            body = self.with_poison(cx, self.refs_in(env), (), lambda: k(f"(snd {v})", rty[1][1]))
            return f"match {coqname} root__ {a} with Ret {v} => let root__ := fst {v} in {body} | Panic => Panic | OutOfFuel => OutOfFuel end"
        return f"match {coqname} {a} with Ret {v} => {k(v, rty)} | Panic => Panic | OutOfFuel => OutOfFuel end"

    def call_generated_terms(self, key, allargs, cx, k, env=None):
        coqname, ptys, rty = self.u.fns[key]
        if len(allargs) != len(ptys): raise RsError(f"arity mismatch calling {coqname}")
        a = " ".join(self.coerce(t, ty, pty) for (t, ty), pty in zip(allargs, ptys))
        return self.finish_call(key, coqname, a, rty, cx, k, env)

    def call_generated(self, key, pre_args, args, env, cx, k):
        coqname, ptys, rty = self.u.fns[key]
        def after(ts):
            allargs = pre_args + ts
            if len(allargs) != len(ptys): raise RsError(f"arity mismatch calling {coqname}")
            a = " ".join(self.coerce(t, ty, pty) for (t, ty), pty in zip(allargs, ptys))
            return self.finish_call(key, coqname, a, rty, cx, k, env)
        return self.tr_list(args, env, cx, after)

    def tr_call(self, e, env, cx, k):
        f, args = e[1], e[2]
        if f[0] != "path": raise RsError("call of a non-path")
        segs = [re.sub(r"::<.*$", "", s) for s in f[1]]
        name = "::".join(segs)
        if name in ALLOC_CALLS: cx.allocs += 1
        if name in ("Ok", "Err", "Some"):
            if len(args) != 1: raise RsError(f"{name} takes one argument")
            def mk(t, ty):
                if name == "Ok": return k(f"(Ok {t})", ("res", ty, "?"))
                if name == "Err": return k(f"(Err {t})", ("res", "?", ty))
                return k(f"(Some {t})", ("opt", ty))
            return self.tr(args[0], env, cx, mk)
        if name in ("PartialOrd::partial_cmp", "PartialEq::eq", "Ord::cmp") and len(args) == 2:        # UFCS form of a str comparison
            def both(ts):
                (at, aty), (bt, bty) = ts
                if not (is_str(aty) and is_str(bty)): raise RsError(f"{name} on non-string operands")
                if name == "PartialEq::eq": return k(f"(str_eqb {at} {bt})", "bool")
                if name == "Ord::cmp": return k(f"(str_cmp {at} {bt})", ("named", "Ordering"))
                return k(f"(Some (str_cmp {at} {bt}))", ("opt", ("named", "Ordering")))
            return self.tr_list(args, env, cx, both)
        if name in ("Cow::Owned", "Cow::Borrowed"):
            return self.tr(args[0], env, cx, lambda t, ty: k(f"(Cow_{segs[1]} {self.coerce(t, ty, 'str')})", "Cow"))
        if name in ("String::from_utf8_unchecked", "String::from", "core::str::from_utf8_unchecked", "str::from_utf8_unchecked"):
            return self.tr(args[0], env, cx, lambda t, ty: k(self.coerce(t, ty, "str"), "String" if name.startswith("String") else "str"))
        if name in ("Vec::with_capacity", "String::with_capacity"):
            return self.tr(args[0], env, cx, lambda t, ty: k("[]", "String"))
        if name in ("Vec::new", "String::new"): return k("[]", "String")
        if name in ("Map::new", "Table::new", "toml::Table::new", "serde_json::Map::new") and not args: return k("[]", "map")
        if name in ("core::mem::replace", "mem::replace", "std::mem::replace") and len(args) == 2 and cx.lens:
            def through(lt, lty):
                if not (isinstance(lty, tuple) and lty[0] == "mref"): raise RsError("mem::replace on a non-reference in lens mode")
                old_ = cx.fresh("old")
                def with_new(t, ty):
                    new = self.coerce(t, ty, lty[1])
                    if lt in env and env[lt][0] == lt:
                        return f"let {old_} := fst {lt} in " + self.lens_write(lt, new, env, cx, lambda: k(old_, lty[1]))
                    tmp = cx.fresh("lens")
                    return f"let {tmp} := {lt} in let {old_} := fst {tmp} in " + self.lens_write_tmp(tmp, new, env, cx, lambda: k(old_, lty[1]))
                return self.tr(args[1], env, cx, with_new)
            return self.tr(args[0], env, cx, through)
        if name in ("Table::default", "Map::default", "toml::Table::default") and not args: return k("[]", "map")
        if name in ("core::mem::replace", "mem::replace", "std::mem::replace") and len(args) == 2 and place_var(args[0]) in env:
            x = place_var(args[0]); old_ = cx.fresh("old")
            return self.tr(args[1], env, cx, lambda t, ty: f"let {old_} := {x} in let {x} := {self.coerce(t, ty, env[x][1])} in {k(old_, env[x][1])}")
        if name in ("core::mem::take", "mem::take", "std::mem::take") and len(args) == 1 and place_var(args[0]) in env and is_str(env[place_var(args[0])][1]):
            x = place_var(args[0]); old_ = cx.fresh("old")
            return f"let {old_} := {x} in let {x} := [] in {k(old_, env[x][1])}"
        if name in ("serde_json::Value::String", "Value::String", "toml::Value::String") and len(args) == 1:
            return self.tr(args[0], env, cx, lambda t, ty: k(f"(VStr {self.coerce(t, ty, 'str')})", ("named", "Value")))
        if name in cx.call_map:
            if cx.call_map[name] not in self.u.fns: raise RsError(f"`{name}` dispatches to a function that could not be translated")
            return self.call_generated(cx.call_map[name], [], args, env, cx, k)
        if name in ("Value::Array", "Value::Object", "Value::Table", "toml::Value::Array", "toml::Value::Table") and len(args) == 1:
            c = "Arr" if name.endswith("Array") else "Obj"
            return self.tr(args[0], env, cx, lambda t, ty: k(f"({c} {t})", ("named", "Value")))
        if name in ("Box::new", "once", "core::iter::once") and len(args) == 1:
            return self.tr(args[0], env, cx, k)
        if name == "Label::new" and len(args) == 3:
            # diagnostic::Label::new(text, offset, len): the message text is not modelled
            return self.tr_list(args[1:], env, cx, lambda ts: k(f"({ts[0][0]}, {ts[1][0]})", ("tuple", ["N", "N"])))
        if name in ("Token::from_encoded_unchecked",) and len(args) == 1:
            def owned_kind(ty):
                if ty in ("str", "String", "Cow"): return ty
                if isinstance(ty, tuple) and ty[0] == "named" and ALIASES.get(ty[1]) == "String": return "String"
                return "str"
            return self.tr(args[0], env, cx, lambda t, ty: k(f"(mk_Token {self.coerce(t, owned_kind(ty), 'Cow')})", ("named", "Token")))
        if name in ("Self::new_unchecked", "Pointer::new_unchecked", "PointerBuf::new_unchecked") and len(args) == 1:
            tn = cx.self_ty if segs[0] == "Self" else segs[0]
            return self.tr(args[0], env, cx, lambda t, ty: k(self.coerce(t, ty, "str"), ("named", tn) if isinstance(tn, str) else tn))
        if name in ("PointerBuf", "Pointer", "Self") and len(args) == 1 and (name != "Self" or cx.self_ty in ALIASES):
            tn = cx.self_ty if name == "Self" else name
            return self.tr(args[0], env, cx, lambda t, ty: k(self.coerce(t, ty, "str"), ("named", tn)))
        if name in ("Self::root", "Pointer::root", "PointerBuf::new", "PointerBuf::root") and not args:
            tn = cx.self_ty if segs[0] == "Self" else segs[0]
            return k("[]", ("named", tn) if isinstance(tn, str) else tn)
        head = segs[0]
        if head == "Self": head = cx.self_ty
        # enum tuple variant constructor
        if len(segs) == 2 and head in self.u.enums:
            for v, kind, payload in self.u.enums[head]:
                if v == segs[1] and kind == "tuple":
                    ptys = [ty_of_tokens(p, head) for p in payload]
                    return self.tr_list(args, env, cx, lambda ts: k(
                        "(" + f"{head}_{v} " + " ".join(self.coerce(t, ty, pt) for (t, ty), pt in zip(ts, ptys)) + ")", ("named", head)))
        # generated free function or associated function
        key = (None, segs[0]) if len(segs) == 1 else (head, segs[1]) if len(segs) == 2 else None
        if len(segs) == 1 and (("mod", cx.mod), segs[0]) in self.u.fns: key = (("mod", cx.mod), segs[0])     # a function of the same module first
        if key in self.u.fns:
            return self.call_generated(key, [], args, env, cx, k)
        raise RsError(f"call of `{name}` not supported")

    def tr_struct(self, e, env, cx, k):
        segs, fields = e[1], e[2]
        head = segs[0]
        if head == "Self": head = cx.self_ty
        if len(segs) == 1 and head in self.u.structs:
            decl = self.u.structs[head]
            ctor, resty, tyctx = f"mk_{head}", ("named", head), head
        elif len(segs) == 2 and head in self.u.enums:
            decl = None
            for v, kind, payload in self.u.enums[head]:
                if v == segs[1] and kind == "struct": decl = payload
            if decl is None: raise RsError(f"unknown struct variant {'::'.join(segs)}")
            ctor, resty, tyctx = f"{head}_{segs[1]}", ("named", head), head
        else:
            raise RsError(f"unknown struct `{'::'.join(segs)}`")
        given = dict(fields)
        if set(given) != set(f for f, _ in decl): raise RsError(f"struct literal fields of {ctor} do not match the declaration")
        order = [given[f] for f, _ in decl]
        ftys = [ty_of_tokens(t, tyctx) for _, t in decl]
        return self.tr_list(order, env, cx, lambda ts: k(
            "(" + ctor + " " + " ".join(self.coerce(t, ty, ft) for (t, ty), ft in zip(ts, ftys)) + ")", resty))

    def tr_macro(self, e, env, cx, k):
        name, toks = e[1], e[2]
        if name == "write" and cx.display:
            return self.tr_write(toks, env, cx, k)
        if name == "matches":
            ps = Parser(list(toks) + [("punct", ")", -1)])
            scrut = ps.parse_expr()
            ps.expect(",")
            pats = ps.parse_pattern_alts()
            guard = None
            if ps.eat("if"): guard = ps.parse_expr()
            arms = [(pats, guard, ("bool", True)), ([("p_wild",)], None, ("bool", False))]
            return self.tr(scrut, env, cx, lambda t, ty: self.tr_arms(t, ty, arms, env, cx, k))
        if name in ("vec", "format"): cx.allocs += 1
        if name == "vec":
            ps = Parser(list(toks) + [("punct", ")", -1)])
            items = []
            while not ps.at(")"):
                items.append(ps.parse_expr())
                if ps.at(";"): raise RsError("vec![x; n] not supported")
                if not ps.eat(","): break
            return self.tr_list(items, env, cx, lambda ts: k("[" + "; ".join(t for t, _ in ts) + "]", ("list", ts[0][1] if ts else "?")))
        if name == "debug_assert":
            # debug-profile meaning (panic when false); the equivalence proof then shows the assertion never fires, i.e. both
            # profiles behave alike
            ps = Parser(list(toks) + [("punct", ")", -1)])
            cond = ps.parse_expr()
            return self.tr(cond, env, cx, lambda ct, _: f"if {ct} then {k('tt', 'unit')} else Panic")
        if name in ("debug_assert_eq", "debug_assert_ne"):
            raise RsError(f"{name}! changes behaviour between build profiles; not supported")
        raise RsError(f"macro {name}! not supported")

    def display_text(self, t, ty):
        """the text `{}` prints for a value"""
        if ty == "N": return f"(dec_of_N {t})"
        if is_str(ty) or ty == "Cow" or ty == ("named", "Token"): return self.coerce(t, ty, "str") if ty != ("named", "Token") else None
        return None

    def tr_write(self, toks, env, cx, k):
        """`write!(f, "fmt", args..)` in a Display impl: the concatenation of the literal pieces and the `{}` / `{name}` arguments
        (no format specs); the result is the text written"""
        ps = Parser(list(toks) + [("punct", ")", -1)])
        ps.parse_expr()                     # the formatter
        ps.expect(",")
        fmt = ps.parse_expr()
        if fmt[0] != "str": raise RsError("write! with a non-literal format string")
        args = []
        while ps.eat(","):
            if ps.at(")"): break
            args.append(ps.parse_expr())
        text = bytes(fmt[1]).decode("utf-8", "replace")
        pieces, i, buf, nxt = [], 0, "", 0
        while i < len(text):
            c = text[i]
            if c == "{" and text[i + 1:i + 2] == "{": buf += "{"; i += 2; continue
            if c == "}" and text[i + 1:i + 2] == "}": buf += "}"; i += 2; continue
            if c == "{":
                j = text.index("}", i)
                inner = text[i + 1:j]
                if buf: pieces.append(("lit", buf)); buf = ""
                if inner == "":
                    if nxt >= len(args): raise RsError("write!: more placeholders than arguments")
                    pieces.append(("arg", args[nxt])); nxt += 1
                elif re.fullmatch(r"[A-Za-z_][A-Za-z0-9_]*", inner):
                    pieces.append(("arg", ("path", [inner])))
                else: raise RsError(f"write!: format spec `{{{inner}}}` not supported")
                i = j + 1; continue
            buf += c; i += 1
        if buf: pieces.append(("lit", buf))
        def go(todo, acc):
            if not todo:
                return k("(" + " ++ ".join(acc) + ")" if acc else "[]", "str")
            kind, v = todo[0]
            if kind == "lit": return go(todo[1:], acc + [coq_bytes(list(v.encode()))])
            def with_arg(t, ty):
                txt = self.display_text(t, ty)
                if txt is None: raise RsError(f"write!: cannot print a value of type {ty!r}")
                return go(todo[1:], acc + [txt])
            return self.tr(v, env, cx, with_arg)
        return go(pieces, [])

    # ---- control flow
    def tr_if(self, e, env, cx, k):
        cond, then, els = e[1], e[2], e[3]
        def else_code():
            if els is None: return k("tt", "unit")
            return self.tr(els, env, cx, k)
        if cond[0] == "let":
            pats = cond[1] if isinstance(cond[1], list) else [cond[1]]
            arms = [(pats, None, then), ([("p_wild",)], None, ("__else__", els))]
            return self.tr(cond[2], env, cx, lambda t, ty: self.tr_arms(t, ty, arms, env, cx, k))
        return self.tr(cond, env, cx, lambda ct, _: f"if {ct} then {self.tr(then, env, cx, k)} else {else_code()}")

    def tr_arm_body(self, body, env, cx, k):
        if body[0] == "__else__":
            if body[1] is None: return k("tt", "unit")
            return self.tr(body[1], env, cx, k)
        return self.tr(body, env, cx, k)

    def tr_arms(self, st, sty, arms, env, cx, k):
        """sequential match arms over scrutinee term st of type sty"""
        if not arms:
            return "Panic (* unreachable: rustc checked the match is exhaustive *)"
        pats, guard, body = arms[0]
        rest = lambda: self.tr_arms(st, sty, arms[1:], env, cx, k)
        scalar = sty in ("N", "bool")
        if scalar:
            conds, binds = [], []
            for p in pats:
                c, b = self.scalar_test(p, st, sty, cx)
                conds.append(c); binds.append(b)
            if any(b for b in binds) and len(pats) > 1: raise RsError("bindings in or-patterns not supported")
            env2 = dict(env)
            pre = ""
            if binds[0]:
                env2[binds[0]] = (binds[0], sty)
                pre = f"let {binds[0]} := {st} in "
            always = any(c is None for c in conds)
            cond = None if always else " || ".join(conds) if len(conds) > 1 else conds[0]
            if cond and len(conds) > 1: cond = "(" + cond + ")"
            if guard is not None:
                if not pure_expr(guard): raise RsError("match guard must be a pure expression")
                g = self.tr(guard, env2, cx, lambda t, ty: t)
                cond = g if cond is None else f"({cond} && {g})"
                if pre and cond: cond = f"({pre}{cond})"
            if cond is None:
                return pre + self.tr_arm_body(body, env2, cx, k)
            return f"if {cond} then {pre}{self.tr_arm_body(body, env2, cx, k)} else {rest()}"
        # constructor patterns
        if len(pats) > 1:
            # or-pattern over constructors: expand into separate arms with the same body
            return self.tr_arms(st, sty, [([p], guard, body) for p in pats] + arms[1:], env, cx, k)
        p = pats[0]
        while p[0] == "p_ref": p = p[1]
        if p[0] in ("p_wild", "p_bind"):
            env2 = dict(env)
            pre = ""
            if p[0] == "p_bind":
                env2[p[1]] = (p[1], sty); pre = f"let {p[1]} := {st} in "
            if guard is not None:
                g = self.tr(guard, env2, cx, lambda t, ty: t)
                return f"{pre}if {g} then {self.tr_arm_body(body, env2, cx, k)} else {rest()}"
            return pre + self.tr_arm_body(body, env2, cx, k)
        if len(arms) > 1 and not cx.loops:
            # outside loops the code of the remaining arms is bound once (as a thunk) instead of being copied into every
            # failing branch of this arm's pattern: keeps nested constructor / tuple patterns linear in size
            rn = cx.fresh("rest")
            rest_code = rest()
            call = lambda: f"{rn} tt"
            inner = self.ctor_match(p, st, sty, env, cx,
                                    lambda env2: (self.tr_arm_body(body, env2, cx, k) if guard is None else
                                                  f"if {self.tr(guard, env2, cx, lambda t, ty: t)} then {self.tr_arm_body(body, env2, cx, k)} else {call()}"),
                                    call)
            return f"let {rn} := (fun _ : unit => {rest_code}) in {inner}"
        return self.ctor_match(p, st, sty, env, cx,
                               lambda env2: (self.tr_arm_body(body, env2, cx, k) if guard is None else
                                             f"if {self.tr(guard, env2, cx, lambda t, ty: t)} then {self.tr_arm_body(body, env2, cx, k)} else {rest()}"),
                               rest)

    def scalar_test(self, p, st, sty, cx):
        """(condition or None when irrefutable, bound name or None)"""
        while p[0] == "p_ref": p = p[1]
        if p[0] == "p_wild": return None, None
        if p[0] == "p_bind": return None, p[1]
        if p[0] == "p_lit":
            e = p[1]
            if e[0] in ("int", "byte", "char"): return f"({st} =? {e[1]})", None
            if e[0] == "bool": return (st if e[1] else f"(negb {st})"), None
            raise RsError("literal pattern kind not supported")
        if p[0] == "p_range":
            lo, hi = p[1], p[2]
            return f"(({lo[1]} <=? {st}) && ({st} <=? {hi[1]}))", None
        if p[0] == "p_path":
            if len(p[1]) == 1:
                cv = const_value(self.u, p[1][0])
                if cv and cv[1] == "N": return f"({st} =? {cv[0]})", None
            raise RsError(f"pattern `{'::'.join(p[1])}` on a scalar not supported")
        raise RsError(f"pattern {p[0]} on a scalar not supported")

    def ctor_match(self, p, st, sty, env, cx, on_match, on_fail):
        """match st against constructor pattern p; sub-patterns may be bindings, wildcards, literals or constructors"""
        if isinstance(sty, tuple) and sty[0] == "mref":
            # `match dest { Value::Array(array) => .. }` with dest: &mut Value binds array: &mut Vec<Value>
            if sty[1] != ("named", "Value"): raise RsError("pattern match through a reference to a non-Value")
            if not re.fullmatch(r"\w+", st):
                tmp = cx.fresh("scrut")
                return f"let {tmp} := {st} in " + self.ctor_match(p, tmp, sty, env, cx, on_match, on_fail)
            if p[0] == "p_ctor" and len(p[2]) == 1:
                sub = p[2][0]
                while sub[0] == "p_ref": sub = sub[1]
                vname = p[1][-1]
                if vname == "Array": c, lensf, fty = "Arr", "lens_arr", ("list", ("named", "Value"))
                elif vname in ("Object", "Table"): c, lensf, fty = "Obj", "lens_obj", "map"
                else: raise RsError(f"binding the payload of Value::{vname} through a reference is not supported")
                raw = cx.fresh("raw")
                if sub[0] == "p_wild":
                    body = on_match(env)
                elif sub[0] == "p_bind":
                    env2 = dict(env); env2[sub[1]] = (sub[1], ("mref", fty))
                    body = f"let {sub[1]} := {lensf} {st} {raw} in " + self.fresh_var(cx, sub[1], lambda: on_match(env2))
                else: raise RsError("nested pattern under a reference is not supported")
                return f"match fst {st} with | {c} {raw} => {body} | _ => {on_fail()} end"
            if p[0] in ("p_path",) or (p[0] == "p_ctor" and all(x[0] in ("p_wild", "p_rest") for x in p[2])) or (p[0] == "p_struct" and not p[2]):
                return self.ctor_match(p, f"(fst {st})", sty[1], env, cx, on_match, on_fail)
            raise RsError("pattern through a reference not supported")
        if p[0] == "p_tuple":
            if not (isinstance(sty, tuple) and sty[0] == "tuple" and len(sty[1]) == len(p[1])): raise RsError("tuple pattern on a non-tuple")
            names = [cx.fresh("y") for _ in p[1]]
            def tinner(envx, todo):
                if not todo: return on_match(envx)
                (sp, v, fty) = todo[0]
                while sp[0] == "p_ref": sp = sp[1]
                if sp[0] == "p_wild": return tinner(envx, todo[1:])
                if sp[0] == "p_bind":
                    e3 = dict(envx); e3[sp[1]] = (sp[1], fty)
                    return f"let {sp[1]} := {v} in {tinner(e3, todo[1:])}"
                if fty in ("N", "bool"):
                    c, b = self.scalar_test(sp, v, fty, cx)
                    return f"if {c} then {tinner(envx, todo[1:])} else {on_fail()}"
                return self.ctor_match(sp, v, fty, envx, cx, lambda e3: tinner(e3, todo[1:]), on_fail)
            return f"let '({', '.join(names)}) := {st} in " + tinner(dict(env), list(zip(p[1], names, sty[1])))
        if p[0] == "p_lit" and (is_str(sty) or sty == "Cow"):
            e = p[1]
            if e[0] not in ("str", "bstr"): raise RsError("non-string literal pattern on a string")
            return f"if str_eqb {self.coerce(st, sty, 'str')} {coq_bytes(e[1])} then {on_match(env)} else {on_fail()}"
        ctors = self.u.ctor_list(sty)
        if p[0] == "p_path": segs, subs, named = p[1], [], None
        elif p[0] == "p_ctor": segs, subs, named = p[1], p[2], None
        elif p[0] == "p_struct": segs, subs, named = p[1], None, p[2]
        elif p[0] == "p_lit" and is_str(sty):
            e = p[1]
            return f"if str_eqb {st} {coq_bytes(e[1])} then {on_match(env)} else {on_fail()}"
        else: raise RsError(f"pattern {p[0]} not supported on {sty!r}")
        vname = segs[-1]
        target = None
        for c in ctors:
            if c[3] == vname or (isinstance(c[3], set) and vname in c[3]): target = c
        if target is None: raise RsError(f"pattern `{'::'.join(segs)}` does not name a constructor of {sty!r}")
        cname, ftys, fnames, _ = target
        # sub-patterns in field order
        if named is not None:
            if fnames is None:
                if named: raise RsError("struct pattern with fields on a tuple/unit variant")
                subs = [("p_wild",)] * len(ftys)          # `Variant { .. }` is allowed on any variant
            else:
                given = dict(named)
                subs = [given.get(f, ("p_wild",)) for f in fnames]
        else:
            subs = [s for s in subs]
            if any(s == ("p_rest",) for s in subs):
                i = subs.index(("p_rest",))
                subs = subs[:i] + [("p_wild",)] * (len(ftys) - len(subs) + 1) + subs[i + 1:]
            if len(subs) != len(ftys): raise RsError(f"pattern arity mismatch for {cname}")
        binders, env2, nested = [], dict(env), []
        for sp, fty in zip(subs, ftys):
            sp_ = sp
            while isinstance(sp_, tuple) and sp_[0] == "p_ref": sp_ = sp_[1]
            if isinstance(sp_, list): raise RsError("or-patterns inside constructor patterns not supported")
            if sp_[0] == "p_wild": binders.append("_")
            elif sp_[0] == "p_bind":
                binders.append(sp_[1]); env2[sp_[1]] = (sp_[1], fty)
                if fty == "N" and isinstance(sty, tuple) and sty[0] == "named" and sty[1] in CALLER_INT_TYPES: cx.risky.add(sp_[1])
            else:
                v = cx.fresh("x"); binders.append(v); nested.append((sp_, v, fty))
        def inner(envx, todo):
            if not todo: return on_match(envx)
            sp_, v, fty = todo[0]
            if fty in ("N", "bool"):
                c, b = self.scalar_test(sp_, v, fty, cx)
                return f"if {c} then {inner(envx, todo[1:])} else {on_fail()}"
            return self.ctor_match(sp_, v, fty, envx, cx, lambda e3: inner(e3, todo[1:]), on_fail)
        clauses = [f"| {cname} {' '.join(binders)} => {inner(env2, nested)}".replace("  ", " ")]
        others = [c for c in ctors if c is not target]
        if len(others) >= 2:
            clauses.append(f"| _ => {on_fail()}")
        else:
            for c in others:
                clauses.append(f"| {c[0]} {' '.join('_' for _ in c[1])} => {on_fail()}".replace("  =>", " =>"))
        return f"match {st} with " + " ".join(clauses) + " end"

    # ---- blocks / statements
    def tr_block(self, b, env, cx, k):
        stmts, tail = b[1], b[2]
        return self.tr_stmts(stmts, tail, dict(env), cx, k)

    def tr_stmts(self, stmts, tail, env, cx, k):
        if not stmts:
            if tail is None: return k("tt", "unit")
            return self.tr(tail, env, cx, k)
        s, rest = stmts[0], stmts[1:]
        cont = lambda env_: self.tr_stmts(rest, tail, env_, cx, k)
        kind = s[0]
        if kind == "let":
            pat, init = s[1], s[2]
            if isinstance(pat, list): raise RsError("or-pattern in let")
            if pat[0] == "p_bind" and pat[1] in cx.skip_lets:
                return cont(env)          # a local that only feeds message texts (configured per function)
            while pat[0] == "p_ref": pat = pat[1]
            if init is None: raise RsError("let without initialiser")
            if pat[0] == "p_bind":
                if cx.risky and mentions(init, cx.risky): cx.risky.add(pat[1])
                def after(t, ty):
                    env2 = dict(env); env2[pat[1]] = (pat[1], ty)
                    return f"let {pat[1]} := {t} in " + self.fresh_var(cx, pat[1], lambda: cont(env2))
                return self.tr(init, env, cx, after)
            if pat[0] == "p_wild":
                return self.tr(init, env, cx, lambda t, ty: cont(env))
            if pat[0] == "p_tuple":
                def after(t, ty):
                    if not (isinstance(ty, tuple) and ty[0] == "tuple" and len(ty[1]) == len(pat[1])): raise RsError("tuple pattern on a non-tuple")
                    env2 = dict(env); names = []
                    for sp, sty in zip(pat[1], ty[1]):
                        if sp[0] == "p_bind": names.append(sp[1]); env2[sp[1]] = (sp[1], sty)
                        elif sp[0] == "p_wild": names.append("_")
                        else: raise RsError("nested pattern in let tuple")
                    return f"let '({', '.join(names)}) := {t} in {cont(env2)}"
                return self.tr(init, env, cx, after)
            raise RsError(f"let pattern {pat[0]} not supported")
        if kind == "letelse":
            # `let PAT = e else { diverges };`
            pat, init, els = s[1], s[2], s[3]
            def never(t, ty): raise RsError("the else block of a let-else must diverge (return / break / continue)")
            return self.tr(init, env, cx, lambda t, ty: self.ctor_match(
                pat, t, ty, env, cx, lambda env2: cont(env2), lambda: self.tr_block(els, env, cx, never)))
        if kind == "assign":
            lhs, op, rhs = s[1], s[2], s[3]
            if lhs[0] == "index" and place_var(lhs[1]) in env and op == "=":
                x = place_var(lhs[1])
                xty = env[x][1]
                if not (isinstance(xty, tuple) and xty[0] == "list"): raise RsError("index assignment on a non-list")
                v = cx.fresh("upd")
                return self.tr_list([lhs[2], rhs], env, cx, lambda ts:
                    f"match list_set {x} {ts[0][0]} {self.coerce(ts[1][0], ts[1][1], xty[1])} with Ret {v} => let {x} := {v} in {cont(env)} | Panic => Panic | OutOfFuel => OutOfFuel end")
            if lhs[0] == "field" and lhs[1] == ("path", ["self"]) and op == "=" and "self" in env and not lhs[2].isdigit():
                fty = None
                sty = env["self"][1]
                if isinstance(sty, tuple) and sty[0] == "named" and sty[1] in self.u.structs:
                    for f, t_ in self.u.structs[sty[1]]:
                        if f == lhs[2]: fty = ty_of_tokens(t_, sty[1])
                if fty is None: raise RsError("assignment to an unknown field of self")
                return self.tr(rhs, env, cx, lambda t, ty: f"let self := {self.self_with_field(env, cx, lhs[2], self.coerce(t, ty, fty))} in {cont(env)}")
            x = place_var(lhs)
            if not (x and x in env): raise RsError("assignment to an unknown place")
            if op == "=":
                if cx.risky and mentions(rhs, cx.risky): cx.risky.add(x)
                return self.tr(rhs, env, cx, lambda t, ty: f"let {x} := {self.coerce(t, ty, env[x][1])} in " + self.fresh_var(cx, x, lambda: cont(env)))
            if op == "+=":
                if cx.risky and (x in cx.risky or mentions(rhs, cx.risky)):
                    cx.risky.add(x)
                    return self.tr(("binary", "+", lhs, rhs), env, cx, lambda t, ty: f"let {x} := {t} in {cont(env)}")
                return self.tr(rhs, env, cx, lambda t, ty: f"let {x} := ({x} + {t}) in {cont(env)}")
            if op == "-=":
                return self.tr(("binary", "-", lhs, rhs), env, cx, lambda t, ty: f"let {x} := {t} in {cont(env)}")
            raise RsError(f"assignment operator {op} not supported")
        if kind == "expr":
            e = s[1]
            if e[0] == "mcall" and e[2] in ALLOC_MUTATORS: cx.allocs += 1
            if e[0] == "mcall" and e[2] in MUTATORS and place_var(e[1]) in env and e[2] not in ("split_off",) and not has_ref(env[place_var(e[1])][1]):
                x = place_var(e[1])
                if e[2] == "push" and is_str(env[x][1]):
                    return self.tr(e[3][0], env, cx, lambda t, ty: f"let {x} := ({x} ++ [{t}]) in {cont(env)}")
                if e[2] == "push_str":
                    return self.tr(e[3][0], env, cx, lambda t, ty: f"let {x} := ({x} ++ {self.coerce(t, ty, 'str')}) in {cont(env)}")
                if e[2] == "insert" and is_str(env[x][1]) and len(e[3]) == 2:          # String::insert(idx, ch)
                    v = cx.fresh("ins")
                    return self.tr_list(e[3], env, cx, lambda ts: f"match str_insert {x} {ts[0][0]} [{ts[1][0]}] with Ret {v} => let {x} := {v} in {cont(env)} | Panic => Panic | OutOfFuel => OutOfFuel end")
                if e[2] == "insert_str" and len(e[3]) == 2:
                    v = cx.fresh("ins")
                    return self.tr_list(e[3], env, cx, lambda ts: f"match str_insert {x} {ts[0][0]} {self.coerce(ts[1][0], ts[1][1], 'str')} with Ret {v} => let {x} := {v} in {cont(env)} | Panic => Panic | OutOfFuel => OutOfFuel end")
                if e[2] == "pop" and not e[3]:                                           # String::pop(), result dropped
                    return f"let {x} := (removelast {x}) in {cont(env)}"
                if e[2] == "clear" and not e[3]:
                    return f"let {x} := [] in {cont(env)}"
                if e[2] == "remove" and len(e[3]) == 1 and is_str(env[x][1]):            # String::remove(idx), result dropped
                    v = cx.fresh("rm")
                    return self.tr(e[3][0], env, cx, lambda it, _: f"match str_remove {x} {it} with Ret {v} => let {x} := {v} in {cont(env)} | Panic => Panic | OutOfFuel => OutOfFuel end")
                if e[2] == "push":
                    return self.tr(e[3][0], env, cx, lambda t, ty: f"let {x} := ({x} ++ [{t}]) in {cont(env)}")
                if e[2] == "insert":
                    if env[x][1] != "map" or len(e[3]) != 2: raise RsError("insert is only supported on a Map / Table variable")
                    return self.tr_list(e[3], env, cx, lambda ts: f"let {x} := (obj_insert {self.coerce(ts[0][0], ts[0][1], 'str')} {ts[1][0]} {x}) in {cont(env)}")
                return self.tr(e[3][0], env, cx, lambda t, ty: f"let {x} := ({x} ++ {self.coerce(t, ty, 'str')}) in {cont(env)}")
            if e[0] == "mcall" and place_var(e[1]) in env:
                x = place_var(e[1])
                xty = env[x][1]
                tn = xty[1] if isinstance(xty, tuple) and xty[0] == "named" else None
                base_ = re.sub(r"::<.*$", "", e[2])
                if tn and (tn, base_) in self.u.fns and (tn, base_) in self.u.mut_self_fns:
                    # a generated `&mut self` method: returns (self afterwards, result); the result is dropped here
                    r = cx.fresh("ms")
                    coqname, ptys, rty = self.u.fns[(tn, base_)]
                    cx.allocs += self.u.alloc_sites.get(coqname, 0)
                    return self.tr_list(e[3], env, cx, lambda ts:
                        f"match {coqname} {x} {' '.join(self.coerce(t, ty, pty) for (t, ty), pty in zip(ts, ptys[1:]))} with "
                        f"Ret {r} => let {x} := (fst {r}) in {cont(env)} | Panic => Panic | OutOfFuel => OutOfFuel end")
            if e[0] in ("return", "break", "continue"):
                return self.tr(e, env, cx, k)
            return self.tr(e, env, cx, lambda t, ty: cont(env))
        if kind == "while":
            return self.tr_while(s, env, cx, cont)
        if kind == "for":
            return self.tr_for(s, env, cx, cont)
        raise RsError(f"statement {kind} not supported")

    def loop_vars(self, nodes, env):
        acc = set()
        for n in nodes: assigned_vars(n, acc)
        return [v for v in env if v in acc]          # declared outside the loop, in declaration order

    def tr_while(self, s, env, cx, cont):
        cond, body = s[1], s[2]
        fuel = cx.unit.fuel.get((cx.fname, len(cx.loops)), None)
        if fuel is None: raise RsError(f"no fuel expression configured for the while loop of {cx.fname}")
        lifted = not cx.loops                       # a top-level loop becomes its own Fixpoint (lambda-lifted over env)
        mv = list(env) if lifted else self.loop_vars([cond, body], env)
        cx.nloops += 1
        name = f"{cx.fname}_loop{cx.nloops}" if lifted else cx.fresh("loop")
        def stale_check():
            bad = [v for v in mv if v in cx.poison]
            if bad: raise RsError(f"loop-carried reference `{bad[0]}` may be stale at the start of an iteration")
        stale_check()
        def call():
            stale_check()
            return f"{name} fuel__ {' '.join(mv)}"
        after = lambda: cont(env)
        cx.loops.append((after, call))
        if cond[0] == "let":
            # `while let PAT = e { body }`: one iteration per successful match; a failed match leaves the loop
            pats = cond[1] if isinstance(cond[1], list) else [cond[1]]
            if len(pats) != 1: raise RsError("or-pattern in while let")
            body_code = self.tr(cond[2], env, cx, lambda st, sty: self.ctor_match(
                pats[0], st, sty, env, cx, lambda env2: self.tr_block(body, env2, cx, lambda t, ty: call()), after))
        else:
            body_code = self.tr(cond, env, cx, lambda ct, _: f"if {ct} then {self.tr_block(body, env, cx, lambda t, ty: call())} else {after()}")
        cx.loops.pop()
        params = " ".join(f"({v} : {coq_ty(env[v][1])})" for v in mv)
        fixbody = f"match fuel__ with O => OutOfFuel | S fuel__ => {body_code} end"
        if lifted:
            name = register_lifted(cx, name, f"Fixpoint {{NAME}} (fuel__ : nat) {params} {{struct fuel__}} : outcome {coq_ty(cx.ret_ty)} :=", fixbody)
            return f"{name} ({fuel}) {' '.join(mv)}"
        return (f"(fix {name} (fuel__ : nat) {params} {{struct fuel__}} : outcome {coq_ty(cx.ret_ty)} := {fixbody}) ({fuel}) {' '.join(mv)}")

    def tr_for(self, s, env, cx, cont):
        pat, it, body = s[1], s[2], s[3]
        counter = None
        # iterator shapes:  X.bytes() | X.iter() | X.tokens() | &X[..]  optionally followed by .enumerate()
        if it[0] == "mcall" and it[2] == "enumerate" and not it[3]:
            if not (pat[0] == "p_tuple" and len(pat[1]) == 2 and pat[1][0][0] == "p_bind"): raise RsError("for over enumerate() needs an (index, item) pattern")
            counter = pat[1][0][1]
            item = pat[1][1]
            it = it[1]
        else:
            item = pat
        if it[0] == "mcall" and it[2] in ("bytes", "iter") and not it[3]:
            src = it[1]
        else:
            src = it
        while item[0] == "p_ref": item = item[1]
        tuple_item = None
        if item[0] == "p_tuple" and all(sp[0] in ("p_bind", "p_wild") for sp in item[1]):
            tuple_item = item[1]
            x = cx.fresh("it")
        elif item[0] == "p_bind":
            x = item[1]
        else:
            raise RsError("for item pattern must be a plain name or a tuple of names")
        lifted = not cx.loops
        mv = list(env) if lifted else self.loop_vars([body], env)
        cx.nloops += 1
        name = f"{cx.fname}_loop{cx.nloops}" if lifted else cx.fresh("loop")
        l = "l__" if lifted else cx.fresh("l")
        if x in env and tuple_item is None:
            x2 = cx.fresh(x)                      # the loop variable shadows an outer local: rename it inside the body
            body = rename_var(body, x, x2)
            x = x2
        if x in env or (counter and counter in env): raise RsError("loop variable shadows an outer variable")
        def after_src(st, sty):
            if isinstance(sty, tuple) and sty[0] == "list":
                lst, ety = st, sty[1]
            else:
                lst, ety = self.coerce(st, sty, "str"), "N"
            env2 = dict(env); env2[x] = (x, ety)
            unpack = ""
            if tuple_item is not None:
                if not (isinstance(ety, tuple) and ety[0] == "tuple" and len(ety[1]) == len(tuple_item)): raise RsError("tuple item pattern over non-tuple items")
                names = []
                for sp, sty_ in zip(tuple_item, ety[1]):
                    if sp[0] == "p_bind":
                        if sp[1] in env: raise RsError("loop variable shadows an outer variable")
                        names.append(sp[1]); env2[sp[1]] = (sp[1], sty_)
                    else: names.append("_")
                unpack = f"let '({', '.join(names)}) := {x} in "
            if counter: env2[counter] = (counter, "N")
            extra = f" ({counter} + 1)" if counter else ""
            call = lambda: f"{name} {l}{extra} {' '.join(mv)}".rstrip()
            after = lambda: cont(env)
            cx.loops.append((after, call))
            body_code = self.tr_block(body, env2, cx, lambda t, ty: call())
            cx.loops.pop()
            params = " ".join(f"({v} : {coq_ty(env[v][1])})" for v in mv)
            cpar = f" ({counter} : N)" if counter else ""
            cinit = " 0" if counter else ""
            fixbody = f"match {l} with [] => {after()} | {x} :: {l} => {unpack}{body_code} end"
            if lifted:
                name2 = register_lifted(cx, name, f"Fixpoint {{NAME}} ({l} : list {coq_ty(ety)}){cpar} {params} {{struct {l}}} : outcome {coq_ty(cx.ret_ty)} :=", fixbody)
                return f"{name2} {lst}{cinit} {' '.join(mv)}".rstrip()
            return (f"(fix {name} ({l} : list {coq_ty(ety)}){cpar} {params} {{struct {l}}} : outcome {coq_ty(cx.ret_ty)} := {fixbody}) {lst}{cinit} {' '.join(mv)}").rstrip()
        return self.tr(src, env, cx, after_src)


# ------------------------------------------------------------------------------- driver / config

EXTERN_STRUCTS = {      # core::ops range types, as far as the crate looks inside them
    "Range": [("start", ["usize"]), ("end_", ["usize"])], "RangeFrom": [("start", ["usize"])], "RangeTo": [("end_", ["usize"])],
    "RangeInclusive": [("start", ["usize"]), ("end_", ["usize"])], "RangeToInclusive": [("end_", ["usize"])], "RangeFull": [],
}
# diagnostic::Report<T> at T = ParseError (RichParseError): the error and the subject it is about (`Diagnostic::into_report` is
# `Report::new(self, subject.into())`, a one-line default method of the trait)
EXTERN_STRUCTS["RichParseError"] = [("source", ["ParseError"]), ("subject", ["String"])]
EXTERN_ENUMS = {"Bound": [("Included", "tuple", [["usize"]]), ("Excluded", "tuple", [["usize"]]), ("Unbounded", "unit", [])],
                # core::num::ParseIntError, by the IntErrorKind values `str::parse::<usize>` can produce
                "ParseIntError": [("Empty", "unit", []), ("InvalidDigit", "unit", []), ("PosOverflow", "unit", [])]}


def gen_types(unit, names):
    out = []
    for n in names:
        if n in unit.structs and not unit.structs[n]:
            out.append(f"Inductive {n} := mk_{n}.")
        elif n in unit.structs:
            fs = unit.structs[n]
            out.append(f"Record {n} := mk_{n} {{ " + "; ".join(f"{n}_{f} : {coq_ty(ty_of_tokens(t, n))}" for f, t in fs) + " }.")
        elif n in unit.enums:
            cl = []
            for v, kind, payload in unit.enums[n]:
                if kind == "unit": cl.append(f"| {n}_{v}")
                elif kind == "tuple": cl.append(f"| {n}_{v} " + " ".join(f"(_ : {coq_ty(ty_of_tokens(p, n))})" for p in payload))
                else: cl.append(f"| {n}_{v} " + " ".join(f"({f} : {coq_ty(ty_of_tokens(p, n))})" for f, p in payload))
            out.append(f"Inductive {n} :=\n  " + "\n  ".join(cl) + ".")
        else:
            raise RsError(f"type {n} not found in the source")
    return out


def canon(text):
    """text with generated `name_<n>` identifiers renumbered by first appearance (to compare two emissions of the same code)"""
    seen = {}
    def ren(m):
        return seen.setdefault(m.group(0), f"{m.group(1)}_#{len(seen)}")
    return re.sub(r"\b([A-Za-z]+)_(\d+)\b", ren, text)


def register_lifted(cx, name, header_fmt, fixbody):
    """a top-level loop becomes a Fixpoint; when the same loop is emitted twice (duplicated continuation) reuse the first"""
    key = canon(header_fmt.replace("{NAME}", "@") + fixbody.replace(name, "@"))
    for (k2, n2) in cx.lifted_keys:
        if k2 == key:
            return n2
    cx.lifted_keys.append((key, name))
    cx.lifted.append(header_fmt.replace("{NAME}", name) + "\n" + pretty(fixbody) + ".")
    return name


def pretty(code):
    """break the one-line term into indented lines (layout only; tokens are unchanged)"""
    words = code.split(" ")
    out, line, depth = [], "", 1
    def flush():
        nonlocal line
        if line.strip(): out.append("  " * max(depth, 0) + line.strip())
        line = ""
    i = 0
    while i < len(words):
        w = words[i]
        if w == "|" or w == "else":
            flush()
        if w == "end" or w.startswith("end)"):
            flush(); depth -= 1
        line += w + " "
        if w == "in" or w == "with" or w == "then" or w == "=>" and len(line) > 60:
            if w == "with": depth += 1
            flush()
        i += 1
    flush()
    return "\n".join(out)


def translate(repo, groups, types, fuel):
    """returns ({group: [coq lines]}, report)"""
    unit = Unit()
    unit.fuel = fuel
    srcs = {}
    items_by_file = {}
    for g, targets in groups:
        if targets == "auto:cmp": targets = [{"file": "src/pointer.rs"}]
        for t in targets:
            f = t["file"]
            if f not in items_by_file:
                src = open(os.path.join(repo, f)).read()
                srcs[f] = src
                items_by_file[f] = find_items(src, CONFIG.get("file_renames", {}).get(f))
    groups = [(g, discover_cmp(repo) if targets == "auto:cmp" else targets) for g, targets in groups]
    CONFIG["_expanded_groups"] = groups
    unit.structs.update(EXTERN_STRUCTS); unit.enums.update(EXTERN_ENUMS)
    for f, it in items_by_file.items():
        unit.structs.update(it["structs"]); unit.enums.update(it["enums"]); unit.consts.update(it["consts"])
    report = {"functions": {}, "types": list(types)}
    out = {}
    try:
        out["Types"] = gen_types(unit, types)
    except RsError as e:
        report["types_error"] = str(e); out["Types"] = []
    em = Emitter(unit)
    for g, targets in groups:
        lines = out.setdefault(g, [])
        if g == "Cmp":
            lines += cmp_declarations(srcs["src/pointer.rs"], len(targets))
        if CONFIG.get("group_types", {}).get(g):
            try:
                lines += gen_types(unit, CONFIG["group_types"][g])
                report["types"] += CONFIG["group_types"][g]
            except RsError as e:
                report["types_error"] = str(e)
        for t in targets:
            f, impl, name, coqname = t["file"], t.get("impl"), t["name"], t["coq"]
            trait = t.get("trait")
            it = items_by_file[f]
            cands = [(k, v) for k, v in it["fns"].items() if k[0] == impl and k[2] == name and (trait is None or (k[1] or "").startswith(trait))
                     and (t.get("trait_exact") is None or k[1] == t["trait_exact"])
                     and (t.get("mod") is None or k[3] == t["mod"])]
            entry = {"file": f, "coq": coqname, "group": g}
            report["functions"][coqname] = entry
            if len(cands) != 1:
                entry["status"] = "not-found" if not cands else "ambiguous"
                continue
            key, (params, ret, body, span) = cands[0]
            text = srcs[f][span[0]:span[1]]
            entry["sha256"] = hashlib.sha256(text.encode()).hexdigest()
            entry["lines"] = [srcs[f].count("\n", 0, span[0]) + 1, srcs[f].count("\n", 0, span[1]) + 1]
            if body is None:
                entry["status"] = "parse-error"; entry["error"] = it["errors"].get(key, "?")
                continue
            try:
                self_ty = t.get("self_alias") or t.get("self_ty", impl)      # what `Self` means inside the body
                self_t = t.get("self_type", ("named", self_ty))
                ret_ty = t.get("ret") or (ty_of_tokens(ret, self_ty) if ret else "unit")
                env, binders, ptys = {}, [], []
                mut_self = bool(t.get("mut_self"))
                lens = bool(t.get("lens"))
                if mut_self:
                    ret_ty = ("tuple", [self_t, ret_ty])       # a `&mut self` method returns (self afterwards, result)
                if lens:
                    ret_ty = ("tuple", [("named", "Value"), ret_ty])     # (the document afterwards, result)
                for p, pty in params:
                    if t.get("display") and p != "self" and p[0] == "p_bind" and p[1] == "f":
                        env["f"] = ("tt", "unit"); continue                 # the Formatter: only the text written is modelled
                    if p == "self":
                        env["self"] = ("self", self_t); binders.append(f"(self : {coq_ty(self_t)})"); ptys.append(self_t)
                    else:
                        if p[0] != "p_bind": raise RsError("parameter pattern must be a plain name")
                        ty = t.get("param_types", {}).get(p[1]) or ty_of_tokens(pty, self_ty)
                        env[p[1]] = (p[1], ty); binders.append(f"({p[1]} : {coq_ty(ty)})"); ptys.append(ty)
                cx = Ctx(unit, self_ty, ret_ty, coqname)
                cx.skip_lets = set(t.get("skip_lets", []))
                cx.mut_self = mut_self or lens
                # integers that come straight from the caller of the public API: listed parameters, and a `self` that is an integer or a
                # range (its fields are read as `self.start` / `self.end`)
                cx.risky = {v for v in env if v in CALLER_INT_PARAMS.get(coqname, ())}
                if self_t == "N" or (isinstance(self_t, tuple) and self_t[0] == "named" and self_t[1] in CALLER_INT_TYPES): cx.risky.add("self")
                cx.display = bool(t.get("display"))
                cx.mod = t.get("mod")
                cx.call_map = {k_: tuple(v_) for k_, v_ in t.get("calls", {}).items()}
                if lens:
                    refs = [v for v in env if has_ref(env[v][1])]
                    if len(refs) != 1: raise RsError("a lens-mode function must take exactly one reference into the document")
                    cx.lens = True; cx.state_var = "root__"
                    env["root__"] = ("root__", ("named", "Value"))
                    binders.insert(0, "(root__ : Value.value)")      # the whole document the reference points into
                    code = em.tr_block(body, env, cx, lambda tm, ty: "Ret (root__, " + em.coerce(tm, ty, ret_ty[1][1]) + ")")
                elif mut_self:
                    code = em.tr_block(body, env, cx, lambda tm, ty: "Ret (self, " + em.coerce(tm, ty, ret_ty[1][1]) + ")")
                else:
                    code = em.tr_block(body, env, cx, lambda tm, ty: "Ret " + em.coerce(tm, ty, ret_ty))
                lines.append(f"(* {f}:{entry['lines'][0]}-{entry['lines'][1]}  {impl + '::' if impl else ''}{name} *)")
                lines += cx.lifted
                lines.append(f"Definition {coqname} {' '.join(binders)} : outcome {coq_ty(ret_ty)} :=\n{pretty(code)}.")
                # the thunk / continuation duplication of the emitter can visit one source site several times: count distinct sites per
                # function as `> 0` matters, not the number; still emitted as a number for the record
                unit.alloc_sites[coqname] = cx.allocs
                lines.append(f"(* heap-allocation sites reachable from the body (own std calls that can allocate + those of the generated functions it calls) *)\n"
                             f"Definition {coqname}_alloc_sites : N := {cx.allocs}.")
                entry["alloc_sites"] = cx.allocs
                keys = [(t.get("self_ty", impl), name)] + ([(("mod", t["mod"]), name)] if t.get("mod") else [])
                for key_ in keys:
                    unit.fns[key_] = (coqname, ptys, ret_ty)
                    if lens: unit.lens_fns.add(key_)
                    else: unit.lens_fns.discard(key_)
                if mut_self: unit.mut_self_fns.add((t.get("self_ty", impl), name))
                entry["status"] = "translated"
            except RsError as e:
                entry["status"] = "not-translatable"; entry["error"] = str(e)
            except RecursionError:
                entry["status"] = "not-translatable"; entry["error"] = "internal: expression nesting too deep for the translator"
            except Exception as e:          # a construct the emitter mishandles must fail THIS function closed, not the whole run
                entry["status"] = "not-translatable"; entry["error"] = f"internal: {type(e).__name__}: {e}"
    return out, report


def cmp_declarations(src, n_impls):
    """what the DERIVED comparison impls depend on: both types are newtypes over their text and derive the five traits"""
    out = ["(* src/pointer.rs: the two declarations; the derived PartialEq / Eq / PartialOrd / Ord / Hash of a one-field tuple struct\n"
           "   compare / hash that field *)"]
    for ty, inner in (("Pointer", "str"), ("PointerBuf", "String")):
        m = re.search(r"#\[derive\(([^)]*)\)\]\s*(?:(?://[^\n]*|#\[[^\]]*\])\s*)*pub struct " + ty + r"\(([^)]*)\);", src)
        derives = [d.strip() for d in m.group(1).split(",")] if m else []
        newtype = bool(m) and m.group(2).strip() == inner
        for tr in ("PartialEq", "Eq", "PartialOrd", "Ord", "Hash"):
            out.append(f"Definition gen_{ty}_derives_{tr} : bool := {'true' if tr in derives else 'false'}.")
        out.append(f"Definition gen_{ty}_is_newtype_over_{inner} : bool := {'true' if newtype else 'false'}.")
    out.append(f"(* number of hand-written `impl PartialEq<..>` / `impl PartialOrd<..>` items found (each is translated below) *)\nDefinition gen_cmp_impl_count : N := {n_impls}.")
    return out


def discover_cmp(repo):
    """every hand-written `impl PartialEq<X> for Y` / `impl PartialOrd<X> for Y` of src/pointer.rs (the mixed comparisons between
    Pointer, PointerBuf, str, String and references to them): one target per impl, named after both operand types"""
    src = open(os.path.join(repo, "src/pointer.rs")).read()
    it = find_items(src, None)
    out = []
    def san(x): return re.sub(r"[^A-Za-z0-9]", "", x.replace("&", "ref"))
    for k in it["fns"]:
        impl, tr, name, mod = k
        if not tr or mod: continue
        m = re.fullmatch(r"(PartialEq|PartialOrd)<(.*)>(@ref)?", tr)
        if not m or name not in ("eq", "partial_cmp"): continue
        lhs = ("ref" if m.group(3) else "") + impl
        out.append({"file": "src/pointer.rs", "impl": impl, "trait_exact": tr, "name": name,
                    "coq": f"gen_{name}_{san(lhs)}_{san(m.group(2))}", "self_ty": "CmpSelf" + san(lhs) + san(m.group(2)), "self_type": "str"})
    return sorted(out, key=lambda t: t["coq"])


CONFIG = {
    "types": ["InvalidEncoding", "EncodingError", "Token", "Tokens", "Component", "Components", "ParseError", "Index", "OutOfBoundsError",
              "Range", "RangeFrom", "RangeTo", "RangeInclusive", "RangeToInclusive", "RangeFull", "Bound",
              "ParseIntError", "InvalidCharacterError", "ParseIndexError", "ResolveError", "AssignError", "ReplaceError", "RichParseError"],
    # types that mention references into a document: emitted at the head of the group that uses them (after GenTreePrelude.lens)
    "group_types": {"TreeMut": ["Assigned"]},
    # identifiers renamed while lexing a file (two modules both call their error type `Error`)
    "file_renames": {"src/resolve.rs": {"Error": "ResolveError"}, "src/assign.rs": {"Error": "AssignError"}},
    # one generated file per group: coq/Generated/Scan<Group>.v  (each imports ScanTypes and the groups before it)
    "groups": [
        ("Pointer", [
            {"file": "src/pointer.rs", "impl": None, "name": "validate_bytes", "coq": "gen_validate_bytes"},
            {"file": "src/pointer.rs", "impl": None, "name": "validate", "coq": "gen_validate"},
            {"file": "src/pointer.rs", "impl": "ParseError", "name": "pointer_offset", "coq": "gen_ParseError_pointer_offset"},
            {"file": "src/pointer.rs", "impl": "ParseError", "name": "source_offset", "coq": "gen_ParseError_source_offset"},
            {"file": "src/pointer.rs", "impl": "ParseError", "name": "complete_offset", "coq": "gen_ParseError_complete_offset"},
            {"file": "src/pointer.rs", "impl": "ParseError", "name": "offset", "coq": "gen_ParseError_offset"},
            {"file": "src/pointer.rs", "impl": "ParseError", "name": "invalid_encoding_len", "coq": "gen_ParseError_invalid_encoding_len"},
            {"file": "src/pointer.rs", "impl": "ParseError", "name": "is_no_leading_slash", "coq": "gen_ParseError_is_no_leading_slash"},
            {"file": "src/pointer.rs", "impl": "ParseError", "name": "is_invalid_encoding", "coq": "gen_ParseError_is_invalid_encoding"},
            {"file": "src/pointer.rs", "impl": "ParseError", "trait": "Diagnostic", "name": "labels", "coq": "gen_ParseError_labels",
             "param_types": {"subject": "String"}, "skip_lets": ["text"], "ret": ("opt", ("tuple", ["N", "N"]))},
        ]),
        ("Token", [
            {"file": "src/token.rs", "impl": "Token", "name": "from_encoded", "coq": "gen_Token_from_encoded"},
            {"file": "src/token.rs", "impl": "Token", "name": "new", "coq": "gen_Token_new"},
            {"file": "src/token.rs", "impl": "Token", "name": "encoded", "coq": "gen_Token_encoded"},
            {"file": "src/token.rs", "impl": "Token", "name": "decoded", "coq": "gen_Token_decoded"},
            {"file": "src/token.rs", "impl": "Token", "name": "into_owned", "coq": "gen_Token_into_owned"},
            {"file": "src/token.rs", "impl": "Token", "name": "to_owned", "coq": "gen_Token_to_owned"},
            {"file": "src/token.rs", "impl": "Tokens", "name": "new", "coq": "gen_Tokens_new"},
            {"file": "src/token.rs", "impl": "Tokens", "trait": "Iterator", "name": "next", "coq": "gen_Tokens_next", "mut_self": True,
             "ret": ("opt", ("named", "Token"))},
        ]),
        ("PtrOps", [
            {"file": "src/pointer.rs", "impl": "Pointer", "name": "is_root", "coq": "gen_Pointer_is_root"},
            {"file": "src/pointer.rs", "impl": "Pointer", "name": "tokens", "coq": "gen_Pointer_tokens"},
            {"file": "src/component.rs", "impl": "Components", "trait": "From<&", "name": "from", "coq": "gen_Components_from",
             "param_types": {"pointer": ("named", "Pointer")}},
            {"file": "src/component.rs", "impl": "Components", "trait": "Iterator", "name": "next", "coq": "gen_Components_next", "mut_self": True,
             "ret": ("opt", ("named", "Component"))},
            {"file": "src/pointer.rs", "impl": "Pointer", "name": "count", "coq": "gen_Pointer_count"},
            {"file": "src/pointer.rs", "impl": "Pointer", "name": "back", "coq": "gen_Pointer_back"},
            {"file": "src/pointer.rs", "impl": "Pointer", "name": "last", "coq": "gen_Pointer_last"},
            {"file": "src/pointer.rs", "impl": "Pointer", "name": "front", "coq": "gen_Pointer_front"},
            {"file": "src/pointer.rs", "impl": "Pointer", "name": "first", "coq": "gen_Pointer_first"},
            {"file": "src/pointer.rs", "impl": "Pointer", "name": "split_front", "coq": "gen_Pointer_split_front"},
            {"file": "src/pointer.rs", "impl": "Pointer", "name": "split_at", "coq": "gen_Pointer_split_at"},
            {"file": "src/pointer.rs", "impl": "Pointer", "name": "split_back", "coq": "gen_Pointer_split_back"},
            {"file": "src/pointer.rs", "impl": "Pointer", "name": "parent", "coq": "gen_Pointer_parent"},
            {"file": "src/pointer.rs", "impl": "Pointer", "name": "strip_suffix", "coq": "gen_Pointer_strip_suffix"},
            {"file": "src/pointer.rs", "impl": "Pointer", "name": "strip_prefix", "coq": "gen_Pointer_strip_prefix"},
            {"file": "src/pointer.rs", "impl": "Pointer", "name": "ends_with", "coq": "gen_Pointer_ends_with"},
            {"file": "src/pointer.rs", "impl": "Pointer", "name": "starts_with", "coq": "gen_Pointer_starts_with"},
            {"file": "src/pointer.rs", "impl": "Pointer", "name": "intersection", "coq": "gen_Pointer_intersection"},
        ]),
        ("Slice", [
            {"file": "src/pointer/slice.rs", "impl": "usize", "name": "get", "coq": "gen_get_usize", "self_ty": "usize", "self_type": "N",
             "ret": ("opt", ("named", "Token"))},
            {"file": "src/pointer/slice.rs", "impl": "core::ops::Range", "name": "get", "coq": "gen_get_Range", "self_ty": "Range",
             "ret": ("opt", ("named", "Pointer"))},
            {"file": "src/pointer/slice.rs", "impl": "core::ops::RangeFrom", "name": "get", "coq": "gen_get_RangeFrom", "self_ty": "RangeFrom",
             "ret": ("opt", ("named", "Pointer"))},
            {"file": "src/pointer/slice.rs", "impl": "core::ops::RangeTo", "name": "get", "coq": "gen_get_RangeTo", "self_ty": "RangeTo",
             "ret": ("opt", ("named", "Pointer"))},
            {"file": "src/pointer/slice.rs", "impl": "core::ops::RangeFull", "name": "get", "coq": "gen_get_RangeFull", "self_ty": "RangeFull",
             "ret": ("opt", ("named", "Pointer"))},
            {"file": "src/pointer/slice.rs", "impl": "core::ops::RangeInclusive", "name": "get", "coq": "gen_get_RangeInclusive", "self_ty": "RangeInclusive",
             "ret": ("opt", ("named", "Pointer"))},
            {"file": "src/pointer/slice.rs", "impl": "core::ops::RangeToInclusive", "name": "get", "coq": "gen_get_RangeToInclusive", "self_ty": "RangeToInclusive",
             "ret": ("opt", ("named", "Pointer"))},
            {"file": "src/pointer/slice.rs", "impl": "(Bound", "name": "get", "coq": "gen_get_Bounds", "self_ty": "Bounds",
             "self_type": ("tuple", [("named", "Bound"), ("named", "Bound")]), "ret": ("opt", ("named", "Pointer"))},
        ]),
        ("Index", [
            {"file": "src/index.rs", "impl": "Index", "name": "for_len", "coq": "gen_Index_for_len"},
            {"file": "src/index.rs", "impl": "Index", "name": "for_len_incl", "coq": "gen_Index_for_len_incl"},
            {"file": "src/index.rs", "impl": "Index", "name": "for_len_unchecked", "coq": "gen_Index_for_len_unchecked"},
            {"file": "src/index.rs", "impl": "ParseIndexError", "trait": "From<ParseIntError>", "name": "from", "coq": "gen_ParseIndexError_from"},
            {"file": "src/index.rs", "impl": "Index", "trait": "FromStr", "name": "from_str", "coq": "gen_Index_from_str",
             "ret": ("res", ("named", "Index"), ("named", "ParseIndexError"))},
            # Token::to_index = self.try_into() = <Index as TryFrom<&Token>>::try_from = Index::from_str(token.encoded())
            {"file": "src/index.rs", "impl": "Index", "trait_exact": "TryFrom<&Token<'_>>", "name": "try_from", "coq": "gen_Index_try_from_ref_Token",
             "self_ty": "IndexFromRefToken", "ret": ("res", ("named", "Index"), ("named", "ParseIndexError"))},
            {"file": "src/token.rs", "impl": "Token", "name": "to_index", "coq": "gen_Token_to_index"},
            {"file": "src/token.rs", "impl": "Token", "name": "is_next", "coq": "gen_Token_is_next"},
            {"file": "src/index.rs", "impl": "InvalidCharacterError", "name": "offset", "coq": "gen_InvalidCharacterError_offset"},
            {"file": "src/index.rs", "impl": "InvalidCharacterError", "name": "source", "coq": "gen_InvalidCharacterError_source"},
            {"file": "src/index.rs", "impl": "InvalidCharacterError", "name": "char", "coq": "gen_InvalidCharacterError_char", "ret": "N"},
            {"file": "src/index.rs", "impl": "Index", "trait_exact": "fmt::Display", "name": "fmt", "coq": "gen_Index_display", "self_ty": "IndexDisplay",
             "self_type": ("named", "Index"), "self_alias": "Index", "display": True, "ret": "str"},
        ]),
        ("Buf", [
            {"file": "src/pointer.rs", "impl": "PointerBuf", "name": "push_front", "coq": "gen_PointerBuf_push_front", "mut_self": True},
            {"file": "src/pointer.rs", "impl": "PointerBuf", "name": "push_back", "coq": "gen_PointerBuf_push_back", "mut_self": True},
            {"file": "src/pointer.rs", "impl": "PointerBuf", "name": "pop_back", "coq": "gen_PointerBuf_pop_back", "mut_self": True},
            {"file": "src/pointer.rs", "impl": "PointerBuf", "name": "pop_front", "coq": "gen_PointerBuf_pop_front", "mut_self": True},
            {"file": "src/pointer.rs", "impl": "PointerBuf", "name": "append", "coq": "gen_PointerBuf_append", "mut_self": True,
             "param_types": {"other": ("named", "Pointer")}},
            {"file": "src/pointer.rs", "impl": "PointerBuf", "name": "clear", "coq": "gen_PointerBuf_clear", "mut_self": True},
            {"file": "src/pointer.rs", "impl": "PointerBuf", "name": "replace", "coq": "gen_PointerBuf_replace", "mut_self": True},
            {"file": "src/pointer.rs", "impl": "PointerBuf", "name": "from_tokens", "coq": "gen_PointerBuf_from_tokens",
             "param_types": {"tokens": ("list", ("named", "Token"))}},
        ]),
        ("PtrBuild", [
            {"file": "src/pointer.rs", "impl": "Pointer", "name": "to_buf", "coq": "gen_Pointer_to_buf"},
            {"file": "src/pointer.rs", "impl": "Pointer", "name": "len", "coq": "gen_Pointer_len"},
            {"file": "src/pointer.rs", "impl": "Pointer", "name": "is_empty", "coq": "gen_Pointer_is_empty"},
            {"file": "src/pointer.rs", "impl": "Pointer", "name": "with_trailing_token", "coq": "gen_Pointer_with_trailing_token"},
            {"file": "src/pointer.rs", "impl": "Pointer", "name": "with_leading_token", "coq": "gen_Pointer_with_leading_token"},
            {"file": "src/pointer.rs", "impl": "Pointer", "name": "concat", "coq": "gen_Pointer_concat"},
        ]),
        ("Tree", [
            {"file": "src/resolve.rs", "impl": "ResolveError", "name": "offset", "coq": "gen_ResolveError_offset"},
            {"file": "src/resolve.rs", "impl": "ResolveError", "name": "position", "coq": "gen_ResolveError_position"},
            {"file": "src/resolve.rs", "impl": "ResolveError", "name": "is_unreachable", "coq": "gen_ResolveError_is_unreachable"},
            {"file": "src/resolve.rs", "impl": "ResolveError", "name": "is_not_found", "coq": "gen_ResolveError_is_not_found"},
            {"file": "src/resolve.rs", "impl": "ResolveError", "name": "is_out_of_bounds", "coq": "gen_ResolveError_is_out_of_bounds"},
            {"file": "src/resolve.rs", "impl": "ResolveError", "name": "is_failed_to_parse_index", "coq": "gen_ResolveError_is_failed_to_parse_index"},
            {"file": "src/resolve.rs", "impl": "ResolveError", "trait": "Diagnostic", "name": "labels", "coq": "gen_ResolveError_labels",
             "param_types": {"origin": ("named", "Pointer")}, "skip_lets": ["text"], "ret": ("opt", ("tuple", ["N", "N"]))},
            {"file": "src/resolve.rs", "impl": None, "name": "parse_index", "coq": "gen_parse_index"},
            {"file": "src/resolve.rs", "impl": "Value", "mod": "json", "name": "resolve", "coq": "gen_json_resolve", "self_ty": "JsonValue",
             "self_type": ("named", "Value"), "ret": ("res", ("named", "Value"), ("named", "ResolveError"))},
            {"file": "src/resolve.rs", "impl": "Value", "mod": "json", "name": "resolve_mut", "coq": "gen_json_resolve_mut", "self_ty": "JsonValue",
             "self_type": ("named", "Value"), "ret": ("res", ("named", "Value"), ("named", "ResolveError"))},
            {"file": "src/resolve.rs", "impl": "Value", "mod": "toml", "name": "resolve", "coq": "gen_toml_resolve", "self_ty": "TomlValue",
             "self_type": ("named", "Value"), "ret": ("res", ("named", "Value"), ("named", "ResolveError"))},
            {"file": "src/resolve.rs", "impl": "Value", "mod": "toml", "name": "resolve_mut", "coq": "gen_toml_resolve_mut", "self_ty": "TomlValue",
             "self_type": ("named", "Value"), "ret": ("res", ("named", "Value"), ("named", "ResolveError"))},
            {"file": "src/assign.rs", "impl": "AssignError", "name": "offset", "coq": "gen_AssignError_offset"},
            {"file": "src/assign.rs", "impl": "AssignError", "name": "position", "coq": "gen_AssignError_position"},
            {"file": "src/assign.rs", "impl": "AssignError", "name": "is_out_of_bounds", "coq": "gen_AssignError_is_out_of_bounds"},
            {"file": "src/assign.rs", "impl": "AssignError", "name": "is_failed_to_parse_index", "coq": "gen_AssignError_is_failed_to_parse_index"},
            {"file": "src/assign.rs", "impl": "AssignError", "trait": "Diagnostic", "name": "labels", "coq": "gen_AssignError_labels",
             "param_types": {"origin": ("named", "Pointer")}, "skip_lets": ["text"], "ret": ("opt", ("tuple", ["N", "N"]))},
            {"file": "src/assign.rs", "impl": None, "mod": "json", "name": "expand", "coq": "gen_json_expand"},
            {"file": "src/assign.rs", "impl": None, "mod": "toml", "name": "expand", "coq": "gen_toml_expand"},
        ]),
        # the walks that MUTATE a document through `&mut` references, translated in lens mode: a reference is the pair
        # (content, write-back into the document) of GenTreePrelude.lens; each function returns (document afterwards, result)
        # conversions between the pointer types and text (C18): each must hand the text on unchanged / accept exactly the valid texts
        ("Conv", [
            {"file": "src/pointer.rs", "impl": "Pointer", "name": "parse", "coq": "gen_Pointer_parse", "param_types": {"s": "str"},
             "ret": ("res", ("named", "Pointer"), ("named", "ParseError"))},
            {"file": "src/pointer.rs", "impl": "Pointer", "name": "as_str", "coq": "gen_Pointer_as_str"},
            {"file": "src/pointer.rs", "impl": "Pointer", "trait_exact": "ToOwned", "name": "to_owned", "coq": "gen_Pointer_to_owned", "self_ty": "PointerToOwned",
             "self_type": ("named", "Pointer"), "ret": ("named", "PointerBuf")},
            {"file": "src/pointer.rs", "impl": "Pointer", "trait_exact": "AsRef<str>", "name": "as_ref", "coq": "gen_Pointer_as_ref_str", "self_ty": "PointerAsRefStr",
             "self_type": ("named", "Pointer")},
            {"file": "src/pointer.rs", "impl": "Pointer", "trait_exact": "Borrow<str>", "name": "borrow", "coq": "gen_Pointer_borrow_str", "self_ty": "PointerBorrowStr",
             "self_type": ("named", "Pointer")},
            {"file": "src/pointer.rs", "impl": "Pointer", "trait_exact": "AsRef<[u8]>", "name": "as_ref", "coq": "gen_Pointer_as_ref_bytes", "self_ty": "PointerAsRefBytes",
             "self_type": ("named", "Pointer")},
            {"file": "src/pointer.rs", "impl": "Pointer", "trait_exact": "AsRef<Pointer>", "name": "as_ref", "coq": "gen_Pointer_as_ref_Pointer", "self_ty": "PointerAsRefPointer",
             "self_type": ("named", "Pointer")},
            {"file": "src/pointer.rs", "impl": "PointerBuf", "trait_exact": "AsRef<Pointer>", "name": "as_ref", "coq": "gen_PointerBuf_as_ref_Pointer", "self_ty": "BufAsRefPointer",
             "self_type": ("named", "PointerBuf"), "ret": ("named", "Pointer")},
            {"file": "src/pointer.rs", "impl": "PointerBuf", "name": "as_ptr", "coq": "gen_PointerBuf_as_ptr"},
            {"file": "src/pointer.rs", "impl": "PointerBuf", "trait_exact": "Borrow<Pointer>", "name": "borrow", "coq": "gen_PointerBuf_borrow_Pointer", "self_ty": "BufBorrowPointer",
             "self_type": ("named", "PointerBuf"), "ret": ("named", "Pointer")},
            {"file": "src/pointer.rs", "impl": "PointerBuf", "trait_exact": "Deref", "name": "deref", "coq": "gen_PointerBuf_deref", "self_ty": "BufDeref",
             "self_type": ("named", "PointerBuf"), "ret": ("named", "Pointer")},
            {"file": "src/pointer.rs", "impl": "Pointer", "name": "to_json_value", "coq": "gen_Pointer_to_json_value", "ret": ("named", "Value")},
            {"file": "src/pointer.rs", "impl": "PointerBuf", "name": "parse", "coq": "gen_PointerBuf_parse", "param_types": {"s": "String"}},
            {"file": "src/pointer.rs", "impl": "PointerBuf", "name": "new", "coq": "gen_PointerBuf_new"},
            {"file": "src/pointer.rs", "impl": "PointerBuf", "name": "root", "coq": "gen_PointerBuf_root"},
            {"file": "src/pointer.rs", "impl": "PointerBuf", "trait_exact": "TryFrom<String>", "name": "try_from", "coq": "gen_PointerBuf_try_from_String", "self_ty": "BufTryFromString", "self_alias": "PointerBuf",
             "ret": ("res", ("named", "PointerBuf"), ("named", "ParseError"))},
            {"file": "src/pointer.rs", "impl": "PointerBuf", "trait_exact": "TryFrom<&str>", "name": "try_from", "coq": "gen_PointerBuf_try_from_str", "self_ty": "BufTryFromStr", "self_alias": "PointerBuf",
             "ret": ("res", ("named", "PointerBuf"), ("named", "ParseError"))},
            {"file": "src/pointer.rs", "impl": "PointerBuf", "trait_exact": "FromStr", "name": "from_str", "coq": "gen_PointerBuf_from_str", "self_ty": "BufFromStr", "self_alias": "PointerBuf", "calls": {"Self::try_from": ("BufTryFromStr", "try_from")},
             "ret": ("res", ("named", "PointerBuf"), ("named", "ParseError"))},
            {"file": "src/token.rs", "impl": "Token", "trait_exact": "From<&'astr>", "name": "from", "coq": "gen_Token_from_str", "self_ty": "TokenFromStr", "self_alias": "Token"},
            {"file": "src/token.rs", "impl": "Token", "trait_exact": "From<&'aString>", "name": "from", "coq": "gen_Token_from_ref_String", "self_ty": "TokenFromRefString", "self_alias": "Token"},
            {"file": "src/token.rs", "impl": "Token", "trait_exact": "From<String>", "name": "from", "coq": "gen_Token_from_String", "self_ty": "TokenFromString", "self_alias": "Token"},
            {"file": "src/token.rs", "impl": "Token", "trait_exact": "From<&Token<'a>>", "name": "from", "coq": "gen_Token_from_ref_Token", "self_ty": "TokenFromRefToken", "self_alias": "Token"},
            # Display impls: `fn fmt(&self, f)` translated to the TEXT it writes (write! with `{}` / `{name}` only, f.write_str, x.fmt(f))
            {"file": "src/pointer.rs", "impl": "Pointer", "trait_exact": "core::fmt::Display", "name": "fmt", "coq": "gen_Pointer_display", "self_ty": "PointerDisplay",
             "self_type": ("named", "Pointer"), "display": True, "ret": "str"},
            {"file": "src/pointer.rs", "impl": "PointerBuf", "trait_exact": "core::fmt::Display", "name": "fmt", "coq": "gen_PointerBuf_display", "self_ty": "BufDisplay",
             "self_type": ("named", "PointerBuf"), "display": True, "ret": "str"},
            {"file": "src/token.rs", "impl": "Token", "trait_exact": "alloc::fmt::Display", "name": "fmt", "coq": "gen_Token_display", "self_ty": "TokenDisplay",
             "self_type": ("named", "Token"), "display": True, "ret": "str"},

        ]),
        # all hand-written mixed comparisons (C17): discovered, not listed, so a new one is translated too
        ("Cmp", "auto:cmp"),
        ("TreeMut", [
            {"file": "src/resolve.rs", "impl": "Value", "mod": "json", "name": "resolve_mut", "coq": "gen_json_resolve_mut_lens", "self_ty": "JsonValueL",
             "self_type": ("mref", ("named", "Value")), "lens": True},
            {"file": "src/resolve.rs", "impl": "Value", "mod": "toml", "name": "resolve_mut", "coq": "gen_toml_resolve_mut_lens", "self_ty": "TomlValueL",
             "self_type": ("mref", ("named", "Value")), "lens": True},
            {"file": "src/delete.rs", "impl": "Value", "mod": "json", "name": "delete", "coq": "gen_json_delete", "self_ty": "JsonValueL",
             "self_type": ("mref", ("named", "Value")), "lens": True, "ret": ("opt", ("named", "Value"))},
            {"file": "src/delete.rs", "impl": "Value", "mod": "toml", "name": "delete", "coq": "gen_toml_delete", "self_ty": "TomlValueL",
             "self_type": ("mref", ("named", "Value")), "lens": True, "ret": ("opt", ("named", "Value"))},
            {"file": "src/assign.rs", "impl": None, "mod": "json", "name": "assign_scalar", "coq": "gen_json_assign_scalar", "lens": True},
            {"file": "src/assign.rs", "impl": None, "mod": "json", "name": "assign_object", "coq": "gen_json_assign_object", "lens": True},
            {"file": "src/assign.rs", "impl": None, "mod": "json", "name": "assign_array", "coq": "gen_json_assign_array", "lens": True},
            {"file": "src/assign.rs", "impl": None, "mod": "json", "name": "assign_value", "coq": "gen_json_assign_value", "lens": True},
            {"file": "src/assign.rs", "impl": "Value", "mod": "json", "name": "assign", "coq": "gen_json_assign", "self_ty": "JsonValueL",
             "self_type": ("mref", ("named", "Value")), "lens": True, "ret": ("res", ("opt", ("named", "Value")), ("named", "AssignError"))},
            {"file": "src/assign.rs", "impl": None, "mod": "toml", "name": "assign_scalar", "coq": "gen_toml_assign_scalar", "lens": True},
            {"file": "src/assign.rs", "impl": None, "mod": "toml", "name": "assign_object", "coq": "gen_toml_assign_object", "lens": True},
            {"file": "src/assign.rs", "impl": None, "mod": "toml", "name": "assign_array", "coq": "gen_toml_assign_array", "lens": True},
            {"file": "src/assign.rs", "impl": None, "mod": "toml", "name": "assign_value", "coq": "gen_toml_assign_value", "lens": True},
            {"file": "src/assign.rs", "impl": "Value", "mod": "toml", "name": "assign", "coq": "gen_toml_assign", "self_ty": "TomlValueL",
             "self_type": ("mref", ("named", "Value")), "lens": True, "ret": ("res", ("opt", ("named", "Value")), ("named", "AssignError"))},
        ]),
    ],
    # which earlier groups a group's functions call (imports of the generated file)
    "deps": {"Conv": ["Pointer", "Token", "PtrOps", "Buf", "PtrBuild", "=Value", "=Dec"], "Cmp": ["=Value"], "PtrOps": ["Token"], "TreeMut": ["Token", "PtrOps", "Slice", "Index", "=GenTreePrelude", "Tree"], "Slice": ["PtrOps"], "Buf": ["Token", "PtrOps"], "PtrBuild": ["Token", "PtrOps", "Buf"], "Index": ["Token", "=GenTreePrelude"], "Tree": ["Token", "PtrOps", "Slice", "Index", "=GenTreePrelude"]},
    # fuel for `while` loops: (generated function, nesting depth) -> Gallina term over the parameters
    "fuel": {("gen_validate_bytes", 0): "S (length bytes)",
             ("gen_json_resolve", 0): "S (length ptr)", ("gen_json_resolve_mut", 0): "S (length ptr)",
             ("gen_toml_resolve", 0): "S (length ptr)", ("gen_toml_resolve_mut", 0): "S (length ptr)",
             ("gen_json_expand", 0): "S (length remaining)", ("gen_toml_expand", 0): "S (length remaining)",
             ("gen_json_resolve_mut_lens", 0): "S (length ptr)", ("gen_toml_resolve_mut_lens", 0): "S (length ptr)",
             ("gen_json_assign_value", 0): "S (length ptr)", ("gen_toml_assign_value", 0): "S (length ptr)"},
}

HEADER = ("(* GENERATED by tools/rs2v.py from the current source of the crate -- do not edit.\n"
          "   Proofs/GenEquiv*.v prove each definition equal to the hand-written model function that the\n"
          "   property theorems are stated about. *)\n")


def write_if_changed(path, text):
    os.makedirs(os.path.dirname(path), exist_ok=True)
    old = open(path).read() if os.path.exists(path) else None
    if old != text:
        open(path, "w").write(text)


def main():
    repo = sys.argv[1] if len(sys.argv) > 1 else "/repo"
    outdir = sys.argv[2] if len(sys.argv) > 2 else None
    out, report = translate(repo, CONFIG["groups"], CONFIG["types"], CONFIG["fuel"])
    files = {}
    files["ScanTypes.v"] = HEADER + "From JP Require Export Bytes GenPrelude.\nOpen Scope N_scope.\n\n" + "\n\n".join(out["Types"]) + "\n"
    for g, _ in CONFIG["_expanded_groups"]:
        imports = " ".join((p[1:] if p.startswith("=") else f"Generated.Scan{p}") for p in ["Types"] + CONFIG["deps"].get(g, []))
        files[f"Scan{g}.v"] = HEADER + f"From JP Require Import Bytes GenPrelude {imports}.\nOpen Scope N_scope.\n\n" + "\n\n".join(out[g]) + "\n"
    if outdir:
        for fn, text in files.items():
            write_if_changed(os.path.join(outdir, fn), text)
    else:
        for fn, text in files.items():
            print(f"(* ==== {fn} ==== *)"); print(text)
    print(json.dumps(report, indent=1), file=sys.stderr if not outdir else sys.stdout)
    bad = [k for k, v in report["functions"].items() if v["status"] != "translated"]
    return 1 if bad or "types_error" in report else 0


if __name__ == "__main__":
    sys.exit(main())
