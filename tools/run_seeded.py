#!/usr/bin/env python3
"""run_seeded.py [--all-props] -- apply every /verif/seeded/*/patch.diff to /repo in turn, run the quick check of the
property it breaks (with --all-props: of every property), undo it, and write seeded/RESULTS.md + seeded/results.json.
/repo must be clean; it is restored after every change."""
import os, sys, json, subprocess, re, time
ROOT = os.path.dirname(os.path.dirname(os.path.abspath(__file__)))
allp = "--all-props" in sys.argv
ids = sorted(d for d in os.listdir(f"{ROOT}/seeded") if os.path.isdir(f"{ROOT}/seeded/{d}"))
# --only <regex>: run just the matching changes and merge their rows into the existing seeded/results.json
only = sys.argv[sys.argv.index("--only") + 1] if "--only" in sys.argv else None
props = [json.loads(l)["id"] for l in open(f"{ROOT}/properties.jsonl")]
assert not subprocess.run(["git", "-C", "/repo", "status", "--short"], stdout=subprocess.PIPE, text=True).stdout.strip(), "/repo not clean"
res = {}
# --resume: keep the rows of seeded/results.partial.json (written after every change) and skip those ids
partial = f"{ROOT}/seeded/results.partial.json"
if "--resume" in sys.argv and os.path.exists(partial):
    res = json.load(open(partial))
if only and os.path.exists(f"{ROOT}/seeded/results.json") and not res:
    res = {k: v for k, v in json.load(open(f"{ROOT}/seeded/results.json")).items() if not re.search(only, k)}
for sid in ids:
    if sid in res or (only and not re.search(only, sid)):
        continue
    meta = json.load(open(f"{ROOT}/seeded/{sid}/meta.json"))
    target = meta["breaks_property"]
    subprocess.check_call(["git", "-C", "/repo", "apply", f"{ROOT}/seeded/{sid}/patch.diff"])
    try:
        row = {}
        for p in (props if allp else [target]):
            t0 = time.time()
            r = subprocess.run([f"{ROOT}/check", p], cwd=ROOT, stdout=subprocess.PIPE, stderr=subprocess.STDOUT, text=True)
            v = re.findall(r"^VIOLATION property=\S+ replay=(\S+)(.*)$", r.stdout, re.M)
            kind = "-"
            if v:
                kind = "no-failing-input-found" if "no-failing-input-found" in v[0][1] else "failing-input"
                try:
                    rp = json.load(open(f"{ROOT}/{v[0][0]}"))
                    row.setdefault("replay_" + p, (rp.get("case_readable") or "")[:160])
                except Exception: pass
            row[p] = {"exit": r.returncode, "verdict": kind, "wall_s": round(time.time() - t0, 1)}
        res[sid] = {"target": target, "checks": row}
    finally:
        subprocess.check_call(["git", "-C", "/repo", "checkout", "--", "."])
    print(sid, {k: v["verdict"] for k, v in res[sid]["checks"].items() if isinstance(v, dict) and v["verdict"] != "-"}, flush=True)
    json.dump(res, open(partial, "w"), indent=1)
res = {k: res[k] for k in ids if k in res}
json.dump(res, open(f"{ROOT}/seeded/results.json", "w"), indent=1)
if os.path.exists(partial): os.remove(partial)
with open(f"{ROOT}/seeded/RESULTS.md", "w") as f:
    f.write("# Seeded changes vs. checks (quick tier)\n\nEach change compiles and passes the crate's 92 tests + doctests; `patch.diff`, demonstration and `meta.json` are in the sub-directory.\n\n")
    f.write("| seeded change | breaks | caught by (failing input) | caught by (no-failing-input-found) | first replay of the target check |\n|---|---|---|---|---|\n")
    for sid, r in res.items():
        fi = [p for p, v in r["checks"].items() if isinstance(v, dict) and v["verdict"] == "failing-input"]
        nf = [p for p, v in r["checks"].items() if isinstance(v, dict) and v["verdict"] == "no-failing-input-found"]
        rp = r["checks"].get("replay_" + r["target"], "").replace("|", "\\|")
        f.write(f"| {sid} | {r['target']} | {' '.join(fi) or '**MISSED**' if r['target'] not in nf else ' '.join(fi)} | {' '.join(nf)} | `{rp}` |\n")
print("written seeded/RESULTS.md")
