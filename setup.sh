#!/bin/bash
# Build the whole framework from files on disk (offline): Coq development (full .vo build),
# extracted OCaml runner, Rust harness (all variants/profiles) against /repo's working tree.
set -e
cd "$(dirname "$0")"
export CARGO_NET_OFFLINE=true
mkdir -p .cache evidence out
python3 tools/featgen.py /repo coq/Generated/Features.v >/dev/null
python3 tools/rs2v.py /repo coq/Generated >/dev/null || echo "setup: tools/rs2v.py could not translate every configured function (the checks report it)"
( cd coq && coq_makefile -f _CoqProject -o Makefile >/dev/null && timeout 3000 make -j"$(nproc)" )
bash runner/build.sh
for v in full nostd; do
  for p in debug release; do
    args=(--offline --locked --manifest-path harness/Cargo.toml)
    [ "$v" = nostd ] && args+=(--no-default-features)
    [ "$p" = release ] && args+=(--release)
    CARGO_TARGET_DIR=.cache/target-$v timeout 3000 cargo build "${args[@]}"
  done
done
echo setup-ok
