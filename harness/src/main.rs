//! jp-harness: drives the real jsonptr crate (path dependency on /repo) over generated
//! cases and prints what it observed, in the case protocol of coq/Proto.v.
//!
//!   jp-harness gen  <suite> <tier> <seed>     print the case lines of a suite
//!   jp-harness exec                            read case lines on stdin; for each print
//!                                                <case>\t<observed>
//!                                              and, for each failed property oracle,
//!                                                !ORACLE\t<props>\t<case>\t<message>
mod oracles;
mod suites;
mod util;

use std::io::BufRead;

#[global_allocator]
static GLOBAL: suites::alloc::Counting = suites::alloc::Counting;
use util::*;

fn exec_line(line: &str, out: &mut Out) -> Option<()> {
    let mut it = line.split(' ');
    let op = it.next()?;
    let args: Vec<&str> = it.collect();
    match op {
        "tnew" | "tenc" => suites::token::exec(op, &args, out),
        "door" => suites::parse::exec(op, &args, out),
        "ftok" | "acc" | "wtt" | "wlt" | "fus" => suites::tokens::exec(op, &args, out),
        "get" | "rr" | "rf" | "rt" | "ri" | "rti" | "ru" | "rb" | "spat" => suites::slice::exec(op, &args, out),
        "pfx" => suites::prefix::exec(op, &args, out),
        "buf" => suites::buf::exec(op, &args, out),
        "idx" | "flen" => suites::index::exec(op, &args, out),
        #[cfg(feature = "full")]
        "tree" | "hist" => suites::tree::exec(op, &args, out),
        "cmp" => suites::cmp::exec(op, &args, out),
        "alloc" => suites::alloc::exec(op, &args, out),
        #[cfg(feature = "full")]
        "conv" | "tint" => suites::conv::exec(op, &args, out),
        _ => None,
    }
}

fn main() {
    let a: Vec<String> = std::env::args().collect();
    // panics are observations; keep the default hook quiet
    std::panic::set_hook(Box::new(|_| {}));
    match a.get(1).map(String::as_str) {
        Some("gen") => {
            let suite = a[2].as_str();
            let tier = a[3].as_str();
            let seed: u64 = a[4].parse().expect("seed");
            let mut rng = Rng::new(seed);
            let mut sink = Sink::new();
            let mut emit = |s: String| sink.line(&s);
            match suite {
                "token" => suites::token::gen(tier, &mut rng, &mut emit),
                "parse" => suites::parse::gen(tier, &mut rng, &mut emit),
                "tokens" => suites::tokens::gen(tier, &mut rng, &mut emit),
                "slice" => suites::slice::gen(tier, &mut rng, &mut emit),
                "prefix" => suites::prefix::gen(tier, &mut rng, &mut emit),
                "buf" => suites::buf::gen(tier, &mut rng, &mut emit),
                "index" => suites::index::gen(tier, &mut rng, &mut emit),
                "cmp" => suites::cmp::gen(tier, &mut rng, &mut emit),
                "alloc" => suites::alloc::gen(tier, &mut rng, &mut emit),
                #[cfg(feature = "full")]
                "conv" => suites::conv::gen(tier, &mut rng, &mut emit),
                #[cfg(feature = "full")]
                "tree" => suites::tree::gen(tier, &mut rng, &mut emit),
                #[cfg(feature = "full")]
                "hist" => suites::tree::gen_hist(tier, &mut rng, &mut emit),
                _ => {
                    eprintln!("unknown suite {suite}");
                    std::process::exit(2);
                }
            }
            // literal-guided cases for this suite (empty unless the check passed a dictionary harvested from /repo's source)
            suites::dict::gen(suite, &mut emit);
            sink.flush();
        }
        Some("exec") => {
            let stdin = std::io::stdin();
            let mut sink = Sink::new();
            for line in stdin.lock().lines() {
                let line = line.expect("utf-8 case line");
                if line.is_empty() || line.starts_with('#') {
                    continue;
                }
                let mut out = Out::new();
                let r = no_panic(|| exec_line(&line, &mut out));
                match r {
                    Some(Some(())) => {}
                    Some(None) => out.observed = "harness-cannot-parse-case".into(),
                    None => {
                        // a panic that escaped the suite's own guards: the operations exercised here must not panic
                        out.observed = "harness-panicked".into();
                        out.fail("*", "the crate panicked while this case was executed (no property allows a panic here)".to_string());
                    }
                }
                sink.line(&format!("{line}\t{}", String::from_utf8_lossy(out.observed.as_bytes())));
                // at most a handful of (distinct-property) oracle lines per case, messages bounded; the case text is not
                // repeated (an empty case field refers to the case line just printed)
                let mut printed: Vec<&str> = vec![];
                for (props, msg) in &out.oracle_failures {
                    if printed.iter().filter(|p| **p == props.as_str()).count() >= 2 || printed.len() >= 8 {
                        continue;
                    }
                    printed.push(props.as_str());
                    // (a changed crate may hand out a str that is not valid UTF-8, e.g. sliced inside a character: keep the output well formed)
                    let mut m: String = String::from_utf8_lossy(msg.as_bytes()).replace(['\t', '\n'], " ");
                    if m.len() > 600 {
                        let mut cut = 600;
                        while !m.is_char_boundary(cut) {
                            cut -= 1;
                        }
                        m.truncate(cut);
                        m.push_str(" ...");
                    }
                    sink.line(&format!("!ORACLE\t{props}\t\t{m}"));
                }
            }
            sink.flush();
        }
        _ => {
            eprintln!("usage: jp-harness gen <suite> <tier> <seed> | exec");
            std::process::exit(2);
        }
    }
}
