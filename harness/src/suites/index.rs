//! suite `index`: Index::from_str and friends, for_len / for_len_incl / for_len_unchecked  (C16)
use crate::util::*;
use core::num::IntErrorKind;
use jsonptr::index::{Index, ParseIndexError};
use jsonptr::Token;
use std::str::FromStr;

fn show(r: &Result<Index, ParseIndexError>, s: &str, out: &mut Out) -> String {
    if let Err(e) = r {
        // Display / Debug of every rejection, and its source chain, never panic
        if no_panic(|| format!("{e} {e:?}")).is_none() {
            out.fail("C16", format!("formatting the ParseIndexError for {s:?} panicked"));
        }
        #[cfg(feature = "full")]
        {
            let has = std::error::Error::source(e).is_some();
            out.check(has == !matches!(e, ParseIndexError::LeadingZeros), "C16", || format!("ParseIndexError::source() presence wrong for {s:?}"));
        }
    }
    match r {
        Ok(Index::Next) => format!("ok next {}", hex(Index::Next.to_string().as_bytes())),
        Ok(Index::Num(n)) => format!("ok num {n} {}", hex(Index::Num(*n).to_string().as_bytes())),
        Err(ParseIndexError::LeadingZeros) => "err lz".into(),
        Err(ParseIndexError::InvalidCharacter(e)) => {
            let c = no_panic(|| e.char());
            let first = match c {
                Some(c) => {
                    let want = s.chars().nth(e.offset());
                    out.check(Some(c) == want && !c.is_ascii_digit(), "C16", || format!("char() of the error for {s:?} is {c:?}, the char at offset {} is {want:?}", e.offset()));
                    let mut b = [0u8; 4];
                    c.encode_utf8(&mut b);
                    b[0].to_string()
                }
                None => {
                    out.fail("C16", format!("InvalidCharacterError::char() panicked for {s:?}"));
                    "panic".into()
                }
            };
            out.check(e.source() == s, "C16", || format!("InvalidCharacterError::source() = {:?} for {s:?}", e.source()));
            let _ = no_panic(|| format!("{e} {e:?}")).or_else(|| {
                out.fail("C16", format!("formatting the index error for {s:?} panicked"));
                None
            });
            format!("err ic {} {first}", e.offset())
        }
        Err(ParseIndexError::InvalidInteger(e)) => match e.kind() {
            IntErrorKind::Empty => "err ii empty".into(),
            IntErrorKind::PosOverflow => "err ii overflow".into(),
            k => format!("err ii other:{k:?}"),
        },
    }
}

pub fn exec(op: &str, args: &[&str], out: &mut Out) -> Option<()> {
    match op {
        "idx" => {
            let s = unhex_str(args.first()?)?;
            let r = Index::from_str(&s);
            out.observed = show(&r, &s, out);
            // C16: independent grammar
            let b = s.as_bytes();
            let all_digits = !b.is_empty() && b.iter().all(u8::is_ascii_digit);
            let canonical = all_digits && (b.len() == 1 || b[0] != b'0');
            let value: Option<u128> = if all_digits && b.len() <= 30 { s.parse::<u128>().ok() } else { None };
            let fits = canonical && value.map_or(false, |v| v <= usize::MAX as u128);
            let expect_ok = s == "-" || fits;
            out.check(r.is_ok() == expect_ok, "C16", || format!("Index::from_str({s:?}) = {r:?}, the grammar says ok = {expect_ok}"));
            match &r {
                Ok(i) => {
                    out.check(i.to_string() == s, "C16", || format!("Display of the index parsed from {s:?} is {:?}", i.to_string()));
                    if let Index::Num(n) = i {
                        out.check(Some(*n as u128) == value, "C16", || format!("Index::from_str({s:?}) = Num({n})"));
                    }
                }
                Err(ParseIndexError::LeadingZeros) => out.check(b.len() > 1 && b[0] == b'0', "C16", || format!("LeadingZeros reported for {s:?}")),
                Err(ParseIndexError::InvalidCharacter(e)) => {
                    let first = s.chars().position(|c| !c.is_ascii_digit());
                    out.check(Some(e.offset()) == first && s != "-", "C16", || format!("InvalidCharacter offset {} for {s:?}, first non-digit char at {first:?}", e.offset()));
                }
                Err(ParseIndexError::InvalidInteger(_)) => out.check(b.is_empty() || (canonical && !fits), "C16", || format!("InvalidInteger reported for {s:?}")),
            }
            // every TryFrom form, Token::to_index and is_next agree
            let tok = Token::new(s.as_str());
            let enc = tok.encoded().to_string();
            let via_tok = Index::from_str(&enc);
            let forms: Vec<Result<Index, ParseIndexError>> = vec![
                Index::try_from(s.as_str()),
                Index::try_from(s.clone()),
                Index::try_from(&s),
            ];
            out.check(forms.iter().all(|f| *f == r), "C16", || format!("a TryFrom<str-like> form disagrees with from_str on {s:?}"));
            let tforms = vec![tok.to_index(), Index::try_from(&tok), Index::try_from(tok.clone())];
            out.check(tforms.iter().all(|f| *f == via_tok), "C16", || format!("Token::to_index / TryFrom<Token> disagree with from_str(encoded) on {s:?}"));
            out.check(tok.is_next() == (s == "-"), "C16", || format!("is_next of token {s:?}"));
        }
        "flen" => {
            let i = match *args.first()? {
                "next" => Index::Next,
                f => Index::Num(f.strip_prefix('n')?.parse().ok()?),
            };
            let l: usize = args.get(1)?.parse().ok()?;
            let p = |r: Result<usize, jsonptr::index::OutOfBoundsError>| match r {
                Ok(n) => format!("ok:{n}"),
                Err(e) => {
                    let _ = format!("{e} {e:?}");
                    format!("err:{}:{}", e.length, e.index)
                }
            };
            let (a, b, c) = (i.for_len(l), i.for_len_incl(l), i.for_len_unchecked(l));
            // C16 oracles
            match i {
                Index::Num(n) => {
                    out.check(a.clone().ok() == (n < l).then_some(n), "C16", || format!("Num({n}).for_len({l}) = {a:?}"));
                    out.check(b.clone().ok() == (n <= l).then_some(n), "C16", || format!("Num({n}).for_len_incl({l}) = {b:?}"));
                    out.check(c == n, "C16", || format!("Num({n}).for_len_unchecked({l}) = {c}"));
                    for e in [a.clone().err(), b.clone().err()].into_iter().flatten() {
                        out.check(e.length == l && e.index == n, "C16", || format!("out-of-bounds error for Num({n}) len {l} reports {e:?}"));
                    }
                }
                Index::Next => {
                    out.check(a.is_err() && b == Ok(l) && c == l, "C16", || format!("Next for len {l}: {a:?} {b:?} {c}"));
                    if let Err(e) = &a {
                        out.check(e.length == l && e.index == l, "C16", || format!("Next.for_len({l}) reports {e:?}"));
                    }
                }
            }
            out.check(Index::from(7usize) == Index::Num(7), "C16", || "From<usize>".into());
            out.observed = format!("fl{} fi{} fu{}", p(a), p(b), c);
        }
        _ => return None,
    }
    Some(())
}

const SIGMA: [&str; 8] = ["-", "0", "1", "9", "+", " ", "a", "١"];

pub fn gen(tier: &str, rng: &mut Rng, emit: &mut dyn FnMut(String)) {
    let max = if tier == "thorough" { 6 } else { 5 };
    all_strings(&SIGMA, max, |s| emit(format!("idx {}", hex(s.as_bytes()))));
    let m = usize::MAX as u128;
    for d in 0..=40u128 {
        emit(format!("idx {}", hex((m - 20 + d).to_string().as_bytes())));
    }
    for s in ["18446744073709551616", "99999999999999999999", "100000000000000000000", "340282366920938463463374607431768211456", "00", "0", "-", "--", "-0", "0x", "١٢", "1e3", "٠"] {
        emit(format!("idx {}", hex(s.as_bytes())));
    }
    for d in [18usize, 19, 20, 21, 22, 25, 40] {
        for digit in ["7", "1", "9"] {
            let run = digit.repeat(d);
            for junk in ["x", "+", " ", "\u{661}", "\u{b2}", "-", "e1"] {
                emit(format!("idx {}", hex(format!("{run}{junk}").as_bytes())));
                emit(format!("idx {}", hex(format!("{run}{junk}{run}").as_bytes())));
            }
        }
    }
    for s in ["18446744073709551615x", "18446744073709551616x", "1\u{b2}", "\u{661}", "1a", "1A", "1:", "3x", "2 ", "1e1", "1_0", "0x1", "٣"] {
        emit(format!("idx {}", hex(s.as_bytes())));
    }
    let lens = [0usize, 1, 2, usize::MAX - 1, usize::MAX];
    for l in lens {
        emit(format!("flen next {l}"));
        for i in lens {
            emit(format!("flen n{i} {l}"));
        }
    }
    let n = if tier == "thorough" { 20_000 } else { 1_000 };
    for _ in 0..n {
        let k = 1 + rng.below(26);
        let mut s: String = (0..k).map(|_| char::from(b'0' + rng.below(10) as u8)).collect();
        if rng.chance(1, 5) {
            let at = rng.below(s.len() + 1);
            s.insert_str(at, *rng.pick(&["+", "-", " ", "a", "١", "€", "𝄞"][..]));
        }
        emit(format!("idx {}", hex(s.as_bytes())));
        emit(format!("flen n{} {}", rng.next() as usize >> rng.below(64), rng.next() as usize >> rng.below(64)));
    }
}
