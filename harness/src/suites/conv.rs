//! suite `conv`: serde round trips, owned/borrowed/boxed conversions, Display, Token::from(integer)  (C18)
use crate::oracles::*;
use crate::util::*;
use jsonptr::{Pointer, PointerBuf, Token};
use std::borrow::Cow;

pub fn exec(op: &str, args: &[&str], out: &mut Out) -> Option<()> {
    match op {
        "conv" => {
            let s = unhex_str(args.first()?)?;
            let valid = rfc_ptr(s.as_bytes());
            use serde::de::value::{BorrowedStrDeserializer, Error, StringDeserializer};
            use serde::Deserialize;
            let de_b = <&Pointer>::deserialize(BorrowedStrDeserializer::<Error>::new(&s));
            let de_o = PointerBuf::deserialize(StringDeserializer::<Error>::new(s.clone()));
            let de_v = serde_json::from_value::<PointerBuf>(serde_json::Value::String(s.clone()));
            // deserializers that hand the text over as bytes / as a transient &str / as a char sequence
            use serde::de::value::{BorrowedBytesDeserializer, BytesDeserializer, StrDeserializer, CowStrDeserializer};
            let others: Vec<(&str, Result<PointerBuf, Error>)> = vec![
                ("BytesDeserializer", PointerBuf::deserialize(BytesDeserializer::<Error>::new(s.as_bytes()))),
                ("BorrowedBytesDeserializer", PointerBuf::deserialize(BorrowedBytesDeserializer::<Error>::new(s.as_bytes()))),
                ("StrDeserializer", PointerBuf::deserialize(StrDeserializer::<Error>::new(&s))),
                ("CowStrDeserializer(owned)", PointerBuf::deserialize(CowStrDeserializer::<Error>::new(std::borrow::Cow::Owned(s.clone())))),
                ("BorrowedStrDeserializer->PointerBuf", PointerBuf::deserialize(BorrowedStrDeserializer::<Error>::new(&s))),
            ];
            let de_bb = <&Pointer>::deserialize(BorrowedBytesDeserializer::<Error>::new(s.as_bytes()));
            if !valid {
                let mut accepted: Vec<&str> = others.iter().filter(|(_, r)| r.is_ok()).map(|(n, _)| *n).collect();
                if de_b.is_ok() { accepted.push("&Pointer/BorrowedStr"); }
                if de_o.is_ok() { accepted.push("PointerBuf/String"); }
                if de_v.is_ok() { accepted.push("from_value"); }
                if de_bb.is_ok() { accepted.push("&Pointer/BorrowedBytes"); }
                out.check(accepted.is_empty(), "C18,C02,C01", || {
                    format!("deserialising the invalid text {s:?} did not fail through: {}", accepted.join(", "))
                });
                out.observed = if accepted.is_empty() { "rej".into() } else { format!("ACCEPTED-INVALID:{}", accepted.join(",")) };
                return Some(());
            }
            for (name, r) in &others {
                // a deserializer may legitimately not support strings-as-bytes; if it yields a pointer it must be the text
                if let Ok(q) = r {
                    out.check(q.as_str() == s, "C18", || format!("Deserialize for PointerBuf through {name} changed {s:?} to {:?}", q.as_str()));
                }
            }
            if let Ok(q) = de_bb {
                out.check(q.as_str() == s, "C18", || format!("Deserialize for &Pointer through borrowed bytes changed {s:?}"));
            }
            let p = Pointer::parse(&s).ok()?;
            let mut bad: Vec<&str> = vec![];
            let mut chk = |c: bool, what: &'static str| {
                if !c {
                    bad.push(what);
                }
            };
            // serialisation: exactly the text, as one string
            let buf = p.to_buf();
            chk(serde_json::to_value(p).ok() == Some(serde_json::Value::String(s.clone())), "Serialize for Pointer");
            chk(serde_json::to_value(&buf).ok() == Some(serde_json::Value::String(s.clone())), "Serialize for PointerBuf");
            chk(serde_json::to_string(p).ok() == serde_json::to_string(&s).ok(), "to_string(Pointer)");
            // deserialising that output gives back an equal pointer
            chk(de_b.as_ref().map(|q| q.as_str()).ok() == Some(s.as_str()), "Deserialize for &Pointer");
            chk(de_o.as_ref().map(|q| q.as_str()).ok() == Some(s.as_str()), "Deserialize for PointerBuf");
            chk(de_v.as_ref().map(|q| q.as_str()).ok() == Some(s.as_str()), "from_value::<PointerBuf>");
            let js = serde_json::to_string(&buf).unwrap_or_default();
            chk(serde_json::from_str::<PointerBuf>(&js).ok().as_ref() == Some(&buf), "serde_json text round trip");
            // owned / borrowed / cow
            chk(buf.as_str() == s, "to_buf");
            chk(p.to_owned().as_str() == s, "to_owned");
            // the owned / cloned forms of every token of the pointer keep its encoded and decoded text
            for t in p.tokens() {
                let e = t.encoded().to_string();
                let d = t.decoded().to_string();
                let o = t.to_owned();
                chk(o.encoded() == e && o.decoded() == d, "Token::to_owned");
                let i = t.clone().into_owned();
                chk(i.encoded() == e && i.decoded() == d, "Token::into_owned");
                chk(jsonptr::Token::from(&t).encoded() == e, "From<&Token> for Token");
            }
            let c1: Cow<Pointer> = Cow::from(p);
            let c2: Cow<'static, Pointer> = Cow::from(buf.clone());
            chk(c1.as_str() == s && c2.as_str() == s && c1.into_owned().as_str() == s && c2.into_owned().as_str() == s, "Cow");
            chk(buf.as_ptr().as_str() == s, "PointerBuf::as_ptr");
            // Box<Pointer> and back, for several capacity / length combinations
            for cap in [s.len(), s.len() + 1, 2 * s.len(), 64, 1000] {
                let mut st = String::with_capacity(cap);
                st.push_str(&s);
                match PointerBuf::parse(st) {
                    Ok(b) => {
                        let boxed: Box<Pointer> = b.into();
                        let ok1 = boxed.as_str() == s;
                        let back = boxed.into_buf();
                        chk(ok1 && back.as_str() == s, "Box<Pointer> round trip");
                    }
                    Err(_) => chk(false, "PointerBuf::parse of a valid text"),
                }
            }
            // ToOwned::clone_into / Cow::clone_from reuse a target that held something else (longer, shorter, empty) before
            for old in ["", "/x", "/a/very/much/longer/pointer/than/most/inputs/are/~0~1/0123456789/abcdefghijklmnopqrstuvwxyz"] {
                let mut target = PointerBuf::parse(old).unwrap();
                p.clone_into(&mut target);
                chk(target.as_str() == s, "ToOwned::clone_into");
                let mut c: Cow<'static, Pointer> = Cow::Owned(PointerBuf::parse(old).unwrap());
                c.clone_from(&Cow::Owned(buf.clone()));
                chk(c.as_str() == s, "Cow::clone_from");
                let mut b2 = PointerBuf::parse(old).unwrap();
                b2.clone_from(&buf);
                chk(b2.as_str() == s, "PointerBuf::clone_from");
            }
            // a serializer that is not human readable (binary formats) must be handed the same single string
            chk(rec::emitted(p, false) == Some(s.clone()) && rec::emitted(p, true) == Some(s.clone()), "Serialize for Pointer (recording serializer, both readabilities)");
            chk(rec::emitted(&buf, false) == Some(s.clone()) && rec::emitted(&buf, true) == Some(s.clone()), "Serialize for PointerBuf (recording serializer, both readabilities)");
            // json value, Display
            chk(p.to_json_value() == serde_json::Value::String(s.clone()), "to_json_value");
            chk(serde_json::Value::from(p) == serde_json::Value::String(s.clone()), "From<&Pointer> for Value");
            chk(p.to_string() == s && format!("{p}") == s && format!("{buf}") == s, "Display");
            chk(<&Pointer>::default().as_str().is_empty() && PointerBuf::default().as_str().is_empty() && PointerBuf::new().as_str().is_empty() && Pointer::root().as_str().is_empty(), "root/default");
            if bad.is_empty() {
                out.observed = format!("ok {}", hex(s.as_bytes()));
            } else {
                out.observed = format!("ok {} CHANGED:{}", hex(s.as_bytes()), bad.join(","));
                out.fail("C18", format!("conversions of {s:?} that do not preserve the text: {}", bad.join(", ")));
            }
        }
        "tint" => {
            let z = *args.first()?;
            let mut spell: Vec<String> = vec![];
            macro_rules! each {
                ($($t:ty),*) => {$(
                    if let Ok(v) = z.parse::<$t>() {
                        spell.push(Token::from(v).encoded().to_string());
                        let t = Token::from(v);
                        out.check(rfc_tok(t.encoded().as_bytes()), "C01,C18", || format!("Token::from({v}{}) holds invalid text", stringify!($t)));
                        out.check(t.decoded() == z, "C18", || format!("Token::from({v}{}) decodes to {:?}", stringify!($t), t.decoded()));
                    }
                )*};
            }
            each!(u8, u16, u32, u64, u128, usize, i8, i16, i32, i64, i128, isize);
            if spell.is_empty() {
                return None;
            }
            out.check(spell.iter().all(|x| x == z), "C18", || format!("Token::from({z}) spells {spell:?}"));
            if let Ok(v) = z.parse::<usize>() {
                let pb = PointerBuf::from(v);
                out.check(pb.as_str() == format!("/{z}"), "C04,C18", || format!("PointerBuf::from({v}usize) = {:?}", pb.as_str()));
            }
            let first = spell[0].clone();
            out.observed = if spell.iter().all(|x| *x == first) { hex(first.as_bytes()) } else { format!("MIXED:{spell:?}") };
        }
        _ => return None,
    }
    Some(())
}

const SIGMA: [&str; 7] = ["~", "/", "0", "1", "-", "a", "é"];

pub fn gen(tier: &str, rng: &mut Rng, emit: &mut dyn FnMut(String)) {
    let max = if tier == "thorough" { 6 } else { 5 };
    all_strings(&SIGMA, max, |s| emit(format!("conv {}", hex(s.as_bytes()))));
    // texts beyond the small scope (every ASCII byte incl. '"', '\\', controls; lengths around powers of two)
    for s in boundary_texts(tier) {
        emit(format!("conv {}", hex(format!("/{}", rfc_escape(&s)).as_bytes())));
        if s.len() < 40 {
            emit(format!("conv {}", hex(s.as_bytes())));
        }
    }
    let n = if tier == "thorough" { 20_000 } else { 2_000 };
    for i in 0..n {
        let mut s = super::token::random_text(rng, if i % 40 == 0 { 2000 } else { 30 });
        if rng.chance(9, 10) {
            s = format!("/{}", rfc_escape(&s).replace("~1", "/"));
        }
        emit(format!("conv {}", hex(s.as_bytes())));
    }
    // integers: boundary values of all 12 types, and random ones of every width
    let mut zs: Vec<String> = vec!["0".into(), "1".into(), "-1".into(), "9".into(), "10".into(), "-10".into()];
    macro_rules! bounds {
        ($($t:ty),*) => {$( zs.push(<$t>::MAX.to_string()); zs.push(<$t>::MIN.to_string());
                            zs.push((<$t>::MAX - 1).to_string()); zs.push((<$t>::MIN + 1).to_string()); )*};
    }
    bounds!(u8, u16, u32, u64, u128, usize, i8, i16, i32, i64, i128, isize);
    for _ in 0..(if tier == "thorough" { 20_000 } else { 1_000 }) {
        let width = 1 + rng.below(127);
        let v: u128 = ((rng.next() as u128) << 64 | rng.next() as u128) >> (128 - width);
        zs.push(v.to_string());
        if v <= i128::MAX as u128 {
            zs.push((-(v as i128)).to_string());
        }
    }
    for z in zs {
        emit(format!("tint {z}"));
    }
}


/// a minimal serde Serializer that records whether exactly one string was emitted (anything else -> None)
mod rec {
    use serde::ser::{self, Impossible, Serialize};
    use std::fmt;

    #[derive(Debug)]
    pub struct E;
    impl fmt::Display for E {
        fn fmt(&self, f: &mut fmt::Formatter<'_>) -> fmt::Result {
            f.write_str("not a single string")
        }
    }
    impl std::error::Error for E {}
    impl ser::Error for E {
        fn custom<T: fmt::Display>(_: T) -> Self {
            E
        }
    }

    pub struct S {
        human: bool,
    }

    pub fn emitted<T: Serialize + ?Sized>(v: &T, human: bool) -> Option<String> {
        v.serialize(S { human }).ok()
    }

    macro_rules! refuse {
        ($($f:ident : $t:ty),*) => {$( fn $f(self, _v: $t) -> Result<String, E> { Err(E) } )*};
    }

    impl ser::Serializer for S {
        type Ok = String;
        type Error = E;
        type SerializeSeq = Impossible<String, E>;
        type SerializeTuple = Impossible<String, E>;
        type SerializeTupleStruct = Impossible<String, E>;
        type SerializeTupleVariant = Impossible<String, E>;
        type SerializeMap = Impossible<String, E>;
        type SerializeStruct = Impossible<String, E>;
        type SerializeStructVariant = Impossible<String, E>;
        fn is_human_readable(&self) -> bool {
            self.human
        }
        fn serialize_str(self, v: &str) -> Result<String, E> {
            Ok(v.to_string())
        }
        refuse!(serialize_bool: bool, serialize_i8: i8, serialize_i16: i16, serialize_i32: i32, serialize_i64: i64, serialize_u8: u8,
                serialize_u16: u16, serialize_u32: u32, serialize_u64: u64, serialize_f32: f32, serialize_f64: f64, serialize_char: char,
                serialize_bytes: &[u8]);
        fn serialize_none(self) -> Result<String, E> { Err(E) }
        fn serialize_some<T: ?Sized + Serialize>(self, _: &T) -> Result<String, E> { Err(E) }
        fn serialize_unit(self) -> Result<String, E> { Err(E) }
        fn serialize_unit_struct(self, _: &'static str) -> Result<String, E> { Err(E) }
        fn serialize_unit_variant(self, _: &'static str, _: u32, _: &'static str) -> Result<String, E> { Err(E) }
        fn serialize_newtype_struct<T: ?Sized + Serialize>(self, _: &'static str, _: &T) -> Result<String, E> { Err(E) }
        fn serialize_newtype_variant<T: ?Sized + Serialize>(self, _: &'static str, _: u32, _: &'static str, _: &T) -> Result<String, E> { Err(E) }
        fn serialize_seq(self, _: Option<usize>) -> Result<Self::SerializeSeq, E> { Err(E) }
        fn serialize_tuple(self, _: usize) -> Result<Self::SerializeTuple, E> { Err(E) }
        fn serialize_tuple_struct(self, _: &'static str, _: usize) -> Result<Self::SerializeTupleStruct, E> { Err(E) }
        fn serialize_tuple_variant(self, _: &'static str, _: u32, _: &'static str, _: usize) -> Result<Self::SerializeTupleVariant, E> { Err(E) }
        fn serialize_map(self, _: Option<usize>) -> Result<Self::SerializeMap, E> { Err(E) }
        fn serialize_struct(self, _: &'static str, _: usize) -> Result<Self::SerializeStruct, E> { Err(E) }
        fn serialize_struct_variant(self, _: &'static str, _: u32, _: &'static str, _: usize) -> Result<Self::SerializeStructVariant, E> { Err(E) }
    }
}
