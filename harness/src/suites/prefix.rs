//! suite `prefix`: starts_with / strip_prefix / ends_with / strip_suffix / intersection / concat  (C13, C01, C19)
use crate::oracles::*;
use crate::util::*;
use jsonptr::Pointer;

pub fn exec(op: &str, args: &[&str], out: &mut Out) -> Option<()> {
    if op != "pfx" {
        return None;
    }
    let ps = unhex_str(args.first()?)?;
    let qs = unhex_str(args.get(1)?)?;
    let p = Pointer::parse(&ps).ok()?;
    let q = Pointer::parse(&qs).ok()?;
    let sw = no_panic(|| p.starts_with(q));
    // none of these may panic (C13: they answer false / None for a non-prefix / non-suffix)
    let all = no_panic(|| (p.strip_prefix(q), p.ends_with(q), p.strip_suffix(q), p.intersection(q), p.concat(q)));
    let Some((sp, ew, ss, ix, cc)) = all else {
        let which: Vec<&str> = [
            ("strip_prefix", no_panic(|| p.strip_prefix(q).is_some()).is_none()),
            ("ends_with", no_panic(|| p.ends_with(q)).is_none()),
            ("strip_suffix", no_panic(|| p.strip_suffix(q).is_some()).is_none()),
            ("intersection", no_panic(|| p.intersection(q).len()).is_none()),
            ("concat", no_panic(|| p.concat(q).len()).is_none()),
        ]
        .iter()
        .filter(|(_, panicked)| *panicked)
        .map(|(n, _)| *n)
        .collect();
        out.fail("C13", format!("{} panicked on p = {ps:?}, q = {qs:?}", which.join(" / ")));
        out.observed = "panic".into();
        return Some(());
    };
    out.observed = format!(
        "sw{} sp{} ew{} ss{} ix{} cc {}",
        opt(sw, |b| (b as u8).to_string()).replace('-', "panic"),
        opt(sp, |r| view(&ps, r.as_str())),
        ew as u8,
        opt(ss, |r| view(&ps, r.as_str())),
        view(&ps, ix.as_str()),
        hex(cc.as_str().as_bytes())
    );
    // C13 oracles on token lists
    let tp = ref_tokens(&ps);
    let tq = ref_tokens(&qs);
    let is_prefix = tp.len() >= tq.len() && tp[..tq.len()] == tq[..];
    let is_suffix = tp.len() >= tq.len() && tp[tp.len() - tq.len()..] == tq[..];
    match sw {
        None => out.fail("C13", format!("{ps:?}.starts_with({qs:?}) panicked")),
        Some(b) => out.check(b == is_prefix, "C13", || format!("{ps:?}.starts_with({qs:?}) = {b}, token lists say {is_prefix}")),
    }
    out.check(sp.is_some() == is_prefix, "C13", || format!("{ps:?}.strip_prefix({qs:?}) = {:?}, token-prefix is {is_prefix}", sp.map(|r| r.as_str())));
    if let Some(r) = sp {
        out.check(rfc_ptr(r.as_str().as_bytes()), "C01,C13", || format!("{ps:?}.strip_prefix({qs:?}) = {:?} is not a valid pointer", r.as_str()));
        if is_prefix {
            let rest: String = tp[tq.len()..].iter().map(|t| format!("/{t}")).collect();
            out.check(r.as_str() == rest, "C13", || format!("{ps:?}.strip_prefix({qs:?}) = {:?}, expected {rest:?}", r.as_str()));
            out.check(q.concat(r).as_str() == ps, "C13", || "q.concat(strip_prefix) != p".into());
        }
        out.check(r.is_empty() || view(&ps, r.as_str()) != "@copy", "C19,C13", || "strip_prefix result is not a view".into());
    }
    // ends_with: root is a suffix of root only
    let ew_expect = if tq.is_empty() { tp.is_empty() } else { is_suffix };
    out.check(ew == ew_expect, "C13", || format!("{ps:?}.ends_with({qs:?}) = {ew}, expected {ew_expect}"));
    out.check(ss.is_some() == is_suffix, "C13", || format!("{ps:?}.strip_suffix({qs:?}) = {:?}, token-suffix is {is_suffix}", ss.map(|r| r.as_str())));
    if let Some(r) = ss {
        out.check(rfc_ptr(r.as_str().as_bytes()), "C01,C13", || format!("{ps:?}.strip_suffix({qs:?}) = {:?} is not a valid pointer", r.as_str()));
        if is_suffix {
            let rest: String = tp[..tp.len() - tq.len()].iter().map(|t| format!("/{t}")).collect();
            out.check(r.as_str() == rest, "C13", || format!("{ps:?}.strip_suffix({qs:?}) = {:?}, expected {rest:?}", r.as_str()));
        }
    }
    // intersection: longest common leading token list
    let k = tp.iter().zip(&tq).take_while(|(a, b)| a == b).count();
    let common: String = tp[..k].iter().map(|t| format!("/{t}")).collect();
    out.check(ix.as_str() == common, "C13", || format!("{ps:?}.intersection({qs:?}) = {:?}, expected {common:?}", ix.as_str()));
    out.check(q.intersection(p).as_str() == ix.as_str(), "C13", || format!("intersection of {ps:?} and {qs:?} is not symmetric"));
    out.check(rfc_ptr(ix.as_str().as_bytes()), "C01", || format!("intersection yields invalid text {:?}", ix.as_str()));
    if ps == qs {
        out.check(ix.as_str() == ps, "C13", || "intersection is not idempotent".into());
    }
    // aliasing must not matter: the same q, taken as a view of p's own buffer (same start address / same end), gives the same answers
    let mut views: Vec<(&str, &Pointer)> = vec![];
    if ps.starts_with(qs.as_str()) {
        if let Ok(qa) = Pointer::parse(&ps[..qs.len()]) {
            views.push(("a front view of p's buffer", qa));
        }
    }
    if ps.ends_with(qs.as_str()) && ps.is_char_boundary(ps.len() - qs.len()) {
        if let Ok(qb) = Pointer::parse(&ps[ps.len() - qs.len()..]) {
            views.push(("a back view of p's buffer", qb));
        }
    }
    for (what, qv) in views {
        let same = no_panic(|| {
            p.starts_with(qv) == p.starts_with(q)
                && p.strip_prefix(qv).map(|r| r.as_str()) == p.strip_prefix(q).map(|r| r.as_str())
                && p.ends_with(qv) == p.ends_with(q)
                && p.strip_suffix(qv).map(|r| r.as_str()) == p.strip_suffix(q).map(|r| r.as_str())
                && p.intersection(qv).as_str() == p.intersection(q).as_str()
                && qv.intersection(p).as_str() == q.intersection(p).as_str()
                && (p == qv) == (p == q)
                && p.cmp(qv) == p.cmp(q)
                && p.concat(qv) == p.concat(q)
        });
        out.check(same == Some(true), "C13,C17,C01", || format!("with q = {qs:?} given as {what} (p = {ps:?}) the prefix / suffix / intersection / comparison results differ from those for an equal q stored elsewhere"));
    }
    // concat: list concatenation
    let mut l: Vec<&str> = tp.clone();
    l.extend(&tq);
    let expect: String = l.iter().map(|t| format!("/{t}")).collect();
    out.check(cc.as_str() == expect, "C13,C04", || format!("{ps:?}.concat({qs:?}) = {:?}, expected {expect:?}", cc.as_str()));
    out.check(rfc_ptr(cc.as_str().as_bytes()), "C01", || format!("concat yields invalid text {:?}", cc.as_str()));
    Some(())
}

const TOKS: [&str; 4] = ["", "a", "ab~0", "~1"];

pub fn gen(tier: &str, rng: &mut Rng, emit: &mut dyn FnMut(String)) {
    let max = if tier == "thorough" { 4 } else { 3 };
    let mut ptrs: Vec<String> = vec![];
    super::tokens::all_lists(&TOKS, max, &mut |l| ptrs.push(l.iter().map(|t| format!("/{t}")).collect()));
    // string-prefix-but-not-token-prefix neighbours
    ptrs.push("/foo".into());
    ptrs.push("/foobar".into());
    ptrs.push("/foo/bar".into());
    ptrs.push("/a~0".into());
    ptrs.push("/a~1".into());
    ptrs.push("/a~".replace('~', "~0~0"));
    for p in &ptrs {
        for q in &ptrs {
            emit(format!("pfx {} {}", hex(p.as_bytes()), hex(q.as_bytes())));
        }
    }
    // texts beyond the small scope as tokens: whole-token prefixes / suffixes, string-but-not-token neighbours, self pairs
    for s in boundary_texts(tier) {
        let e = rfc_escape(&s);
        let a = format!("/{e}");
        let b = format!("/x/{e}");
        let c = format!("/{e}/y");
        let d = format!("/{e}y");
        for (p, q) in [(&a, &a), (&b, &a), (&c, &a), (&d, &a), (&a, &d), (&b, &c), (&c, &c)] {
            emit(format!("pfx {} {}", hex(p.as_bytes()), hex(q.as_bytes())));
        }
        emit(format!("pfx {} {}", hex(a.as_bytes()), hex(b"")));
        emit(format!("pfx {} {}", hex(b.as_bytes()), hex(b"/x")));
    }
    // word-at-a-time scanning mistakes: neighbour bytes of the structural bytes at every alignment; the partner differs inside the
    // last token, is the parent, or has one more token
    for p in swar_pointers() {
        let mut q1 = p.clone();
        q1.pop();
        q1.push('Q');
        let parent = &p[..p.rfind('/').unwrap_or(0)];
        let longer = format!("{p}/z");
        let mut q2 = p.clone();                 // differs in the second byte of the last token
        if let Some(k) = p.rfind('/') {
            if k + 2 < p.len() && p.is_char_boundary(k + 2) && p.is_char_boundary(k + 3) {
                q2.replace_range(k + 2..k + 3, "Q");
            }
        }
        for (a, b) in [(&p, &q1), (&p, &q2), (&q2, &p), (&p, &parent.to_string()), (&longer, &p), (&p, &p), (&longer, &q2)] {
            emit(format!("pfx {} {}", hex(a.as_bytes()), hex(b.as_bytes())));
        }
    }
    // differences that cancel when a block comparison folds its words with xor: the same edit at the same offset mod 8 / 16 / 32
    for (i, (b, q)) in periodic_pairs().into_iter().enumerate() {
        if tier != "thorough" && i % 2 == 1 {
            continue;
        }
        let bt = format!("{b}/tail");
        let db = format!("/data{b}");
        for (x, y) in [(&bt, &q), (&b, &q), (&db, &q), (&q, &b)] {
            emit(format!("pfx {} {}", hex(x.as_bytes()), hex(y.as_bytes())));
        }
    }
    // two pointers byte-identical for exactly a block of 2^k bytes, then '/' in one and a token byte in the other
    for k in 10..=17u32 {
        let block = 1usize << k;
        let head: String = (0..block / 8).map(|_| "/abcdefg").collect();
        let p = format!("{head}/tail");
        let q = format!("{head}x/tail");
        let r = format!("{head}/tail/more");
        for (a, b) in [(&p, &q), (&q, &p), (&p, &r), (&r, &p), (&q, &q), (&p, &head), (&q, &head)] {
            emit(format!("pfx {} {}", hex(a.as_bytes()), hex(b.as_bytes())));
        }
    }
    for n in MANY {
        let p: String = (0..n).map(|i| format!("/t{}", i % 7)).collect();
        let q: String = (0..n - 1).map(|i| format!("/t{}", i % 7)).collect();
        let r = format!("{q}/zz");
        for (a, b) in [(&p, &q), (&q, &p), (&p, &r), (&r, &p), (&p, &p)] {
            emit(format!("pfx {} {}", hex(a.as_bytes()), hex(b.as_bytes())));
        }
        let tail: String = (n / 2..n).map(|i| format!("/t{}", i % 7)).collect();
        emit(format!("pfx {} {}", hex(p.as_bytes()), hex(tail.as_bytes())));
    }
    let n = if tier == "thorough" { 50_000 } else { 3_000 };
    for i in 0..n {
        // mostly short; every 25th pair has hundreds of tokens, every 40th has tokens of hundreds of bytes
        let k = if i % 25 == 0 { 50 + rng.below(600) } else { rng.below(6) };
        // (both at once would give MB-sized pointers, on which the extracted model is quadratic: long tokens only on shorter pointers)
        let tl = if i % 40 == 0 && k < 50 { 700 } else if i % 40 == 0 { 60 } else { 3 };
        let base: String = (0..k).map(|_| format!("/{}", rfc_escape(&super::token::random_text(rng, tl)))).collect();
        let j = if i % 25 == 0 { rng.below(300) } else { rng.below(4) };
        let suffix: String = (0..j).map(|_| format!("/{}", rfc_escape(&super::token::random_text(rng, 3)))).collect();
        let ext = format!("{base}{}", rfc_escape(&super::token::random_text(rng, 2))); // string extension, maybe not a token extension
        let other = format!("{base}{suffix}");
        for (a, b) in [(&other, &base), (&base, &other), (&ext, &base), (&other, &suffix), (&other, &ext), (&ext, &other)] {
            if rfc_ptr(a.as_bytes()) && rfc_ptr(b.as_bytes()) {
                emit(format!("pfx {} {}", hex(a.as_bytes()), hex(b.as_bytes())));
            }
        }
    }
}
