//! suite `alloc`: the documented zero-copy operations under a counting global allocator  (C19)
use crate::oracles::*;
use crate::util::*;
use jsonptr::{Pointer, PointerBuf, Token};
use std::alloc::{GlobalAlloc, Layout, System};
use std::hint::black_box;
use std::sync::atomic::{AtomicU64, Ordering::Relaxed};

pub static ALLOCS: AtomicU64 = AtomicU64::new(0);

pub struct Counting;
unsafe impl GlobalAlloc for Counting {
    unsafe fn alloc(&self, l: Layout) -> *mut u8 {
        ALLOCS.fetch_add(1, Relaxed);
        System.alloc(l)
    }
    unsafe fn dealloc(&self, p: *mut u8, l: Layout) {
        System.dealloc(p, l)
    }
    unsafe fn alloc_zeroed(&self, l: Layout) -> *mut u8 {
        ALLOCS.fetch_add(1, Relaxed);
        System.alloc_zeroed(l)
    }
    unsafe fn realloc(&self, p: *mut u8, l: Layout, n: usize) -> *mut u8 {
        ALLOCS.fetch_add(1, Relaxed);
        System.realloc(p, l, n)
    }
}

/// number of heap allocations performed by `f` (the harness is single-threaded in exec mode)
fn count<T>(f: impl FnOnce() -> T) -> (T, u64) {
    let a = ALLOCS.load(Relaxed);
    let r = black_box(f());
    let b = ALLOCS.load(Relaxed);
    (r, b - a)
}

pub fn exec(op: &str, args: &[&str], out: &mut Out) -> Option<()> {
    if op != "alloc" {
        return None;
    }
    let s = unhex_str(args.first()?)?;
    let q = unhex_str(args.get(1)?)?;
    let qp = Pointer::parse(&q).ok()?;
    let mut nonzero: Vec<String> = vec![];
    let mut note = |name: &str, n: u64| {
        if n != 0 {
            nonzero.push(format!("{name}={n}"));
        }
    };
    // parsing a borrowed pointer, success or failure
    let (parsed, n) = count(|| Pointer::parse(&s).ok());
    note("Pointer::parse", n);
    // Token::from_encoded, success or failure
    let (tok, n) = count(|| Token::from_encoded(&s).ok());
    note("Token::from_encoded", n);
    let (_, n) = count(|| (Pointer::root(), PointerBuf::new()));
    note("root/new", n);
    if let Some(p) = parsed {
        let cnt = p.count();
        let (_, n) = count(|| {
            let mut k = 0usize;
            for t in p.tokens() {
                k += black_box(t.encoded().len());
            }
            for c in p.components() {
                black_box(&c);
                k += 1;
            }
            for t in p {
                k += t.encoded().len();
            }
            k + p.count()
        });
        note("tokens/components iteration", n);
        let (_, n) = count(|| (p.first(), p.last(), p.front(), p.back(), p.get(0), p.get(cnt / 2), p.get(cnt), p.get(usize::MAX)));
        note("first/last/get", n);
        let (_, n) = count(|| (p.split_front(), p.split_back(), p.parent(), p.split_at(0), p.split_at(s.len() / 2), p.split_at(s.len())));
        note("split_*/parent", n);
        let (a, b) = (cnt / 3, cnt / 2 + 1);
        let (_, n) = count(|| {
            use core::ops::Bound::*;
            (
                p.get(a..b), p.get(a..), p.get(..b), p.get(a..=b), p.get(..=b), p.get(..),
                p.get((Excluded(a), Included(b))), p.get((Excluded(usize::MAX), Unbounded)), p.get((Included(a), Excluded(b))),
            )
        });
        note("range slices", n);
        let (_, n) = count(|| (p.strip_prefix(qp), p.strip_suffix(qp), p.starts_with(qp), p.ends_with(qp), p.intersection(qp), qp.intersection(p)));
        note("strip/starts/ends/intersection", n);
        let (_, n) = count(|| (p.len(), p.is_empty(), p.is_root(), p.as_str().len()));
        note("len/is_root/as_str", n);
        // Box<Pointer>::into_buf (the box is prepared outside the measurement)
        let boxed: Box<Pointer> = p.to_buf().into();
        let (back, n) = count(move || boxed.into_buf());
        note("Box<Pointer>::into_buf", n);
        black_box(back);
    }
    // Token::new: no allocation iff the text has neither '~' nor '/'
    let plain = !s.contains('~') && !s.contains('/');
    let (t_b, n_new_b) = count(|| Token::new(s.as_str()));
    let owned_in = s.clone();
    let (t_o, n_new_o) = count(move || Token::new(owned_in));
    let tn = (n_new_b > 0) as u8;
    if plain {
        note("Token::new(&str) without ~ or /", n_new_b);
        note("Token::new(String) without ~ or /", n_new_o);
    }
    // decoded() of a token without escapes: borrowed and owned tokens alike
    let (_, n_dec_b) = count(|| t_b.decoded().len());
    let (_, n_dec_o) = count(|| t_o.decoded().len());
    let td = (n_dec_b > 0) as u8;
    if plain {
        note("decoded() of an escape-free borrowed token", n_dec_b);
        note("decoded() of an escape-free owned token", n_dec_o);
    }
    let ed = match &tok {
        Some(t) => {
            let (_, n) = count(|| t.decoded().len());
            if !s.contains('~') {
                note("decoded() of an escape-free from_encoded token", n);
            }
            let owned = t.clone().into_owned();
            let (_, n2) = count(|| owned.decoded().len());
            if !s.contains('~') {
                note("decoded() of an escape-free owned (into_owned) token", n2);
            }
            ((n > 0) as u8).to_string()
        }
        None => "-".into(),
    };
    out.observed = format!("zero{} tn{tn} td{td} ed{ed}", if nonzero.is_empty() { "0".to_string() } else { format!("!{}", nonzero.join(",")) });
    if !nonzero.is_empty() {
        out.fail("C19", format!("operations documented as zero-copy allocated on text {:?} (len {}): {}", if s.len() > 60 { &s[..s.char_indices().nth(40).map_or(s.len(), |x| x.0)] } else { &s }, s.len(), nonzero.join(", ")));
    }
    Some(())
}

const SIGMA: [&str; 6] = ["~", "/", "0", "1", "a", "é"];

pub fn gen(tier: &str, rng: &mut Rng, emit: &mut dyn FnMut(String)) {
    let max = if tier == "thorough" { 6 } else { 5 };
    let qs = ["", "/", "/a", "/a/0"];
    let mut i = 0usize;
    all_strings(&SIGMA, max, |s| {
        emit(format!("alloc {} {}", hex(s.as_bytes()), hex(qs[i % 4].as_bytes())));
        i += 1;
    });
    // texts beyond the small scope: as raw text, and as a valid pointer with a token-prefix partner
    for (i, s) in boundary_texts(tier).into_iter().enumerate() {
        emit(format!("alloc {} {}", hex(s.as_bytes()), hex(qs[i % 4].as_bytes())));
        let e = rfc_escape(&s);
        emit(format!("alloc {} {}", hex(format!("/{e}/k/{e}").as_bytes()), hex(format!("/{e}").as_bytes())));
    }
    // multi-KiB pointers with thousands of tokens
    let n = if tier == "thorough" { 2_000 } else { 150 };
    for i in 0..n {
        let k = if i % 3 == 0 { 3000 } else { 1 + rng.below(200) };
        let toks: Vec<String> = (0..k).map(|_| rfc_escape(&super::token::random_text(rng, 4))).collect();
        let p: String = toks.iter().map(|t| format!("/{t}")).collect();
        let j = rng.below(k + 1);
        let q: String = if rng.chance(1, 2) { toks[..j].iter().map(|t| format!("/{t}")).collect() } else { toks[j..].iter().map(|t| format!("/{t}")).collect() };
        emit(format!("alloc {} {}", hex(p.as_bytes()), hex(q.as_bytes())));
        // long plain token text, long escaped token text, long invalid text
        let plain: String = (0..k).map(|_| *rng.pick(&["a", "b", "é", "0", "€"][..])).collect();
        emit(format!("alloc {} {}", hex(plain.as_bytes()), hex(b"")));
        emit(format!("alloc {} {}", hex(format!("{plain}~").as_bytes()), hex(b"/")));
    }
}
