//! suite `slice`: get(usize), every range form, (Bound, Bound), split_at   (C12, C01, C19)
use crate::oracles::*;
use crate::util::*;
use core::ops::Bound;
use jsonptr::Pointer;

fn parse_bound(f: &str) -> Option<Bound<usize>> {
    if f == "u" {
        return Some(Bound::Unbounded);
    }
    let n: usize = f[1..].parse().ok()?;
    match &f[..1] {
        "i" => Some(Bound::Included(n)),
        "e" => Some(Bound::Excluded(n)),
        _ => None,
    }
}

/// the crate's range rule on a token list of length n: Some((a, b)) = tokens[a..b]
fn rule(n: usize, lo: Bound<usize>, hi: Bound<usize>) -> Option<(usize, usize)> {
    // start: the index of an existing token, unless the form has no start
    let a = match lo {
        Bound::Included(a) => Some(a),
        Bound::Excluded(a) => Some(a.checked_add(1)?),
        Bound::Unbounded => None,
    };
    // exclusive end
    let b = match hi {
        Bound::Included(b) => {
            if b >= n {
                return None;
            }
            Some(b + 1)
        }
        Bound::Excluded(b) => {
            if b > n {
                return None;
            }
            Some(b)
        }
        Bound::Unbounded => None,
    };
    if let Some(a) = a {
        if a >= n {
            return None;
        }
        if let Bound::Included(bi) = hi {
            if bi < a {
                return None;
            }
        }
        if let Some(b) = b {
            if b < a {
                return None;
            }
        }
    }
    Some((a.unwrap_or(0), b.unwrap_or(n)))
}

fn check_range(p: &Pointer, s: &str, what: &str, lo: Bound<usize>, hi: Bound<usize>, r: &Option<Option<&Pointer>>, out: &mut Out) -> String {
    let rt = ref_tokens(s);
    match r {
        None => {
            out.fail("C12", format!("get({what}) on {s:?} panicked"));
            "panic".into()
        }
        Some(got) => {
            let want = rule(rt.len(), lo, hi);
            match (got, want) {
                (None, None) => {}
                (Some(g), Some((a, b))) => {
                    let expect: String = rt[a..b].iter().map(|t| format!("/{t}")).collect();
                    out.check(g.as_str() == expect, "C12", || format!("get({what}) on {s:?} = {:?}, expected {expect:?}", g.as_str()));
                    out.check(g.is_empty() || view(s, g.as_str()) != "@copy", "C12,C19", || format!("get({what}) on {s:?} is not a view of the original"));
                    out.check(rfc_ptr(g.as_str().as_bytes()), "C01", || format!("get({what}) on {s:?} yields invalid text {:?}", g.as_str()));
                }
                (g, w) => out.fail("C12", format!("get({what}) on {s:?} = {:?}, the range rule gives tokens {w:?}", g.map(|g| g.as_str()))),
            }
            opt(*got, |g| view(s, g.as_str()))
        }
    }
}

pub fn exec(op: &str, args: &[&str], out: &mut Out) -> Option<()> {
    let s = unhex_str(args.last()?)?;
    let p = Pointer::parse(&s).ok()?;
    let num = |i: usize| -> Option<usize> { args.get(i)?.parse().ok() };
    use Bound::*;
    out.observed = match op {
        "get" => {
            let i = num(0)?;
            let r = no_panic(|| p.get(i));
            match r {
                None => {
                    out.fail("C04,C12", format!("get({i}) on {s:?} panicked (the token list gives {:?})", ref_tokens(&s).get(i)));
                    "panic".into()
                }
                Some(t) => {
                    let rt = ref_tokens(&s);
                    out.check(t.as_ref().map(|t| t.encoded()) == rt.get(i).copied(), "C04,C12", || format!("get({i}) on {s:?}"));
                    opt(t, |t| view(&s, t.encoded()))
                }
            }
        }
        "rr" => {
            let (a, b) = (num(0)?, num(1)?);
            let r = no_panic(|| p.get(a..b));
            check_range(p, &s, &format!("{a}..{b}"), Included(a), Excluded(b), &r, out)
        }
        "rf" => {
            let a = num(0)?;
            let r = no_panic(|| p.get(a..));
            check_range(p, &s, &format!("{a}.."), Included(a), Unbounded, &r, out)
        }
        "rt" => {
            let b = num(0)?;
            let r = no_panic(|| p.get(..b));
            check_range(p, &s, &format!("..{b}"), Unbounded, Excluded(b), &r, out)
        }
        "ri" => {
            let (a, b) = (num(0)?, num(1)?);
            let r = no_panic(|| p.get(a..=b));
            check_range(p, &s, &format!("{a}..={b}"), Included(a), Included(b), &r, out)
        }
        "rti" => {
            let b = num(0)?;
            let r = no_panic(|| p.get(..=b));
            check_range(p, &s, &format!("..={b}"), Unbounded, Included(b), &r, out)
        }
        "ru" => {
            let r = no_panic(|| p.get(..));
            check_range(p, &s, "..", Unbounded, Unbounded, &r, out)
        }
        "rb" => {
            let (lo, hi) = (parse_bound(args.first()?)?, parse_bound(args.get(1)?)?);
            let r = no_panic(|| p.get((lo, hi)));
            check_range(p, &s, &format!("({lo:?}, {hi:?})"), lo, hi, &r, out)
        }
        "spat" => {
            let k = num(0)?;
            let r = no_panic(|| p.split_at(k));
            match r {
                None => {
                    out.fail("C12", format!("split_at({k}) on {s:?} panicked"));
                    "panic".into()
                }
                Some(r) => {
                    out.check(r.is_some() == (s.as_bytes().get(k) == Some(&b'/')), "C12", || {
                        format!("split_at({k}) on {s:?} is {} but byte {k} is {:?}", if r.is_some() { "Some" } else { "None" }, s.as_bytes().get(k))
                    });
                    if let Some((h, t)) = r {
                        out.check(format!("{}{}", h.as_str(), t.as_str()) == s, "C12", || format!("split_at({k}) pieces of {s:?} do not re-concatenate"));
                        out.check(rfc_ptr(h.as_str().as_bytes()) && rfc_ptr(t.as_str().as_bytes()), "C01", || format!("split_at({k}) on {s:?} yields invalid text"));
                        out.check(view(&s, t.as_str()) != "@copy" && (h.is_empty() || view(&s, h.as_str()) != "@copy"), "C12,C19", || "split_at result is not a view".into());
                    }
                    opt(r, |(h, t)| format!("{},{}", view(&s, h.as_str()), view(&s, t.as_str())))
                }
            }
        }
        _ => return None,
    };
    Some(())
}

const TOKS: [&str; 4] = ["", "a", "ab~0", "~1"];

pub fn gen(tier: &str, rng: &mut Rng, emit: &mut dyn FnMut(String)) {
    let max = if tier == "thorough" { 4 } else { 3 };
    let m = usize::MAX;
    let nums: Vec<usize> = vec![0, 1, 2, 3, 4, 5, m - 1, m];
    let mut ptrs: Vec<String> = vec![];
    super::tokens::all_lists(&TOKS, max, &mut |l| ptrs.push(l.iter().map(|t| format!("/{t}")).collect()));
    for p in &ptrs {
        let x = hex(p.as_bytes());
        emit(format!("ru {x}"));
        for &a in &nums {
            emit(format!("get {a} {x}"));
            emit(format!("rf {a} {x}"));
            emit(format!("rt {a} {x}"));
            emit(format!("rti {a} {x}"));
            for &b in &nums {
                emit(format!("rr {a} {b} {x}"));
                emit(format!("ri {a} {b} {x}"));
            }
        }
        let mut bounds: Vec<String> = vec!["u".into()];
        for &a in &nums {
            bounds.push(format!("i{a}"));
            bounds.push(format!("e{a}"));
        }
        for lo in &bounds {
            for hi in &bounds {
                emit(format!("rb {lo} {hi} {x}"));
            }
        }
        for k in 0..=p.len() + 1 {
            emit(format!("spat {k} {x}"));
        }
        emit(format!("spat {m} {x}"));
    }
    // split_at takes a raw BYTE offset: every offset of pointers whose tokens contain 2-, 3- and 4-byte characters (an offset
    // inside a character must give None, never reach a str slicing primitive that panics off a char boundary)
    for p in ["/é", "/aé/€b", "/€//𝄞x", "/~0é~1/", "/é/é/é"] {
        let x = hex(p.as_bytes());
        for k in 0..=p.len() + 1 {
            emit(format!("spat {k} {x}"));
        }
        for a in 0..4usize {
            emit(format!("get {a} {x}"));
            emit(format!("rf {a} {x}"));
            emit(format!("rt {a} {x}"));
            emit(format!("rti {a} {x}"));
            for b in 0..4usize {
                emit(format!("rr {a} {b} {x}"));
                emit(format!("ri {a} {b} {x}"));
                emit(format!("rb e{a} i{b} {x}"));
                emit(format!("rb i{a} e{b} {x}"));
            }
        }
    }
    // word-at-a-time scanning mistakes: neighbour bytes of the structural bytes at every alignment, every bound
    for (i, p) in swar_pointers().into_iter().enumerate() {
        if tier != "thorough" && i % 3 != 0 && i % 8 != 1 {
            continue;
        }
        let x = hex(p.as_bytes());
        let n = p.matches('/').count();
        for a in (0..=n + 1).filter(|a| *a < 14 || *a + 2 >= n) {
            emit(format!("get {a} {x}"));
            emit(format!("rf {a} {x}"));
            emit(format!("rt {a} {x}"));
            emit(format!("rti {a} {x}"));
            emit(format!("rr {a} {} {x}", a + 2));
            emit(format!("ri {a} {} {x}", a + 1));
            emit(format!("rb e{a} u {x}"));
        }
    }
    // texts beyond the small scope as tokens of a 3-token pointer; every range form around them
    for (i, s) in boundary_texts(tier).into_iter().enumerate() {
        if i % 2 == 1 && tier != "thorough" {
            continue;
        }
        let e = rfc_escape(&s);
        let p = format!("/{e}/m/{e}");
        let x = hex(p.as_bytes());
        for a in 0..4usize {
            emit(format!("get {a} {x}"));
            emit(format!("rf {a} {x}"));
            emit(format!("rt {a} {x}"));
            emit(format!("rti {a} {x}"));
        }
        emit(format!("rr 1 3 {x}"));
        emit(format!("ri 1 2 {x}"));
        emit(format!("rb e0 u {x}"));
        emit(format!("spat {} {x}", e.len() + 1));
        emit(format!("spat {} {x}", e.len()));
        emit(format!("spat {} {x}", e.len() + 3));
    }
    // more than u16::MAX tokens: every range form around the count and around 65535
    for n in [65_537usize, 81_918] {
        let p: String = (0..n).map(|_| "/k").collect();
        let x = hex(p.as_bytes());
        for a in [0, 1, 65_534, 65_535, 65_536, n - 1, n, n + 1] {
            emit(format!("get {a} {x}"));
            emit(format!("rf {a} {x}"));
            emit(format!("rt {a} {x}"));
            emit(format!("rti {a} {x}"));
            emit(format!("rr 0 {a} {x}"));
            emit(format!("rr {a} {n} {x}"));
            emit(format!("ri 0 {a} {x}"));
            emit(format!("rb u e{a} {x}"));
            emit(format!("rb e{a} u {x}"));
        }
        emit(format!("spat {} {x}", p.len() - 2));
    }
    // pointers with many tokens; bounds around the count and around powers of two / ten
    for n in MANY {
        for tok in ["a", "", "ab~0"] {
            let p: String = (0..n).map(|_| format!("/{tok}")).collect();
            let x = hex(p.as_bytes());
            for a in [0, 1, n / 2, n.saturating_sub(2), n - 1, n, n + 1, m] {
                emit(format!("get {a} {x}"));
                emit(format!("rf {a} {x}"));
                emit(format!("rt {a} {x}"));
                emit(format!("rti {a} {x}"));
                for b in [0, n / 2, n - 1, n, n + 1, m] {
                    emit(format!("rr {a} {b} {x}"));
                    emit(format!("ri {a} {b} {x}"));
                }
                emit(format!("rb e{a} u {x}"));
                emit(format!("rb i{a} e{n} {x}"));
                emit(format!("rb u i{a} {x}"));
            }
            emit(format!("spat {} {x}", p.len() / 2));
            emit(format!("spat {} {x}", p.len()));
        }
    }
    // long pointers with random bounds
    let n = if tier == "thorough" { 2_000 } else { 100 };
    for i in 0..n {
        let k = if i % 10 == 0 { 1500 } else { rng.below(40) };
        let p: String = (0..k).map(|_| format!("/{}", rfc_escape(&super::token::random_text(rng, 4)))).collect();
        let x = hex(p.as_bytes());
        for _ in 0..20 {
            let a = rng.below(k + 3);
            let b = rng.below(k + 3);
            emit(format!("rr {a} {b} {x}"));
            emit(format!("ri {a} {b} {x}"));
            emit(format!("rf {a} {x}"));
            emit(format!("rt {b} {x}"));
            emit(format!("rti {b} {x}"));
            emit(format!("get {a} {x}"));
            emit(format!("rb e{a} i{b} {x}"));
            emit(format!("spat {} {x}", rng.below(p.len() + 2)));
        }
    }
}
