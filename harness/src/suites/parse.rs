//! suite `parse`: the eight parsing doors, ParseError accessors, Report, labels  (C02, C14, C01, C18)
use crate::oracles::*;
use crate::util::*;
use jsonptr::diagnostic::Diagnostic;
use jsonptr::{ParseError, Pointer, PointerBuf};

fn err_fields(e: &ParseError, subject: &str, out: &mut Out) -> String {
    let kind = if e.is_no_leading_slash() { "nls" } else { "enc" };
    let label = no_panic(|| {
        e.labels(&subject.to_string())
            .map(|it| it.map(|l| format!("{l:?}")).collect::<Vec<_>>())
    });
    let label_s = match &label {
        None => "label panic".to_string(),
        Some(None) => "label none".to_string(),
        Some(Some(v)) if v.len() == 1 => match label_numbers(&v[0]) {
            Some((o, l)) => {
                // C14: the label lies entirely inside the subject, at the offending '~'
                out.check(o + l <= subject.len(), "C14", || {
                    format!("label [{o}, {o}+{l}) leaves the subject {subject:?} (len {})", subject.len())
                });
                if kind == "enc" {
                    out.check(subject.as_bytes().get(o) == Some(&b'~'), "C14", || {
                        format!("label for {subject:?} starts at {o}, which is not the offending '~'")
                    });
                }
                format!("label {o} {l}")
            }
            None => "label unparsable".to_string(),
        },
        Some(Some(v)) => format!("label count{}", v.len()),
    };
    if label.is_none() {
        out.fail("C14", format!("computing the label for {subject:?} panicked"));
    }
    // C14 oracle: independent first-offence finder
    let b = subject.as_bytes();
    if kind == "nls" {
        out.check(!b.is_empty() && b[0] != b'/', "C14", || format!("NoLeadingSlash reported for {subject:?}"));
        out.check(e.offset() == 0 && e.source_offset() == 0 && e.pointer_offset() == 0 && e.complete_offset() == 0, "C14", || {
            format!("NoLeadingSlash offsets not zero for {subject:?}")
        });
    } else {
        out.check(b.first() == Some(&b'/'), "C14", || format!("InvalidEncoding reported for {subject:?} which has no leading slash"));
        let first_bad = (0..b.len()).find(|&i| b[i] == b'~' && !matches!(b.get(i + 1), Some(b'0') | Some(b'1')));
        let co = e.complete_offset();
        out.check(Some(co) == first_bad, "C14", || {
            format!("complete_offset {co} for {subject:?}, but the first bad '~' is at {first_bad:?}")
        });
        if let Some(fb) = first_bad {
            let slash = (0..=fb).rev().find(|&i| b[i] == b'/');
            out.check(Some(e.pointer_offset()) == slash && e.offset() == e.pointer_offset(), "C14", || {
                format!("pointer_offset {} for {subject:?}, nearest '/' at or before the offence is {slash:?}", e.pointer_offset())
            });
            out.check(e.source_offset() + e.pointer_offset() == co, "C14", || "source_offset is not the difference".into());
        }
    }
    if no_panic(|| format!("{e} {e:?}")).is_none() {
        out.fail("C14", format!("formatting the ParseError of {subject:?} panicked"));
    }
    // variant predicates (incl. the deprecated alias) and the error-source chain agree with the variant
    #[allow(deprecated)]
    let preds = (e.is_no_leading_slash(), e.is_no_leading_backslash(), e.is_invalid_encoding());
    out.check(preds == (kind == "nls", kind == "nls", kind == "enc"), "C14", || format!("is_* predicates {preds:?} disagree with the variant {kind} for {subject:?}"));
    #[cfg(feature = "full")]
    {
        let src = std::error::Error::source(e);
        out.check(src.is_some() == (kind == "enc"), "C14", || format!("ParseError::source() presence disagrees with the variant {kind} for {subject:?}"));
        if let Some(s) = src {
            let _ = no_panic(|| format!("{s} {s:?} {:?}", s.source().map(|x| x.to_string())));
        }
    }
    format!("{kind} {} {} {} {label_s}", e.pointer_offset(), e.source_offset(), e.complete_offset())
}

pub fn exec(op: &str, args: &[&str], out: &mut Out) -> Option<()> {
    if op != "door" {
        return None;
    }
    let door = *args.first()?;
    let s = unhex_str(args.get(1)?)?;
    let valid = rfc_ptr(s.as_bytes());
    // result: Ok(text) / Err(ParseError) / other
    enum R {
        Ok(String),
        Err(String),
        Other(&'static str),
    }
    let r = match door {
        "parse" => match Pointer::parse(&s) {
            Ok(p) => {
                out.check(p.as_str().as_ptr() == s.as_ptr() && p.as_str().len() == s.len(), "C02,C19", || {
                    format!("Pointer::parse({s:?}) is not a view of the very same bytes")
                });
                R::Ok(p.as_str().to_string())
            }
            Err(e) => {
                // C14: a Report built with diagnose / diagnose_with / into_report hands back that same error and the original string
                use jsonptr::diagnostic::Diagnose;
                let r1 = Pointer::parse(&s).diagnose(s.clone()).err();
                let r2 = Pointer::parse(&s).diagnose_with(|| s.clone()).err();
                let r3 = Pointer::parse(&s).err().map(|e2| e2.into_report(s.clone()));
                for (name, r) in [("diagnose", r1), ("diagnose_with", r2), ("into_report", r3)] {
                    match r {
                        Some(rep) => {
                            out.check(rep.original() == &e && rep.subject() == s && *rep == e, "C14", || {
                                format!("Report built with {name} for {s:?} does not hand back the same error and input")
                            });
                            if no_panic(|| format!("{rep} {rep:?}")).is_none() {
                                out.fail("C14", format!("formatting the Report built with {name} for {s:?} panicked"));
                            }
                            out.check(rep.into_original() == e, "C14", || format!("Report::into_original for {s:?} differs"));
                        }
                        None => out.fail("C14", format!("{name} on the failed parse of {s:?} produced no Report")),
                    }
                }
                R::Err(format!("err {}", err_fields(&e, &s, out)))
            }
        },
        "bufparse" => match PointerBuf::parse(s.clone()) {
            Ok(p) => R::Ok(p.as_str().to_string()),
            Err(report) => {
                let subj = report.subject().to_string();
                out.check(subj == s, "C14", || format!("Report::subject() = {subj:?} differs from the input {s:?}"));
                let f = err_fields(report.original(), &subj, out);
                let direct = Pointer::parse(&s).err();
                out.check(direct.as_ref() == Some(report.original()), "C14,C02", || {
                    format!("PointerBuf::parse({s:?}) report holds a different error than Pointer::parse")
                });
                if no_panic(|| format!("{report} {report:?}")).is_none() {
                    out.fail("C14", format!("formatting the Report for {s:?} panicked"));
                }
                let (e2, s2) = report.decompose();
                out.check(s2 == s && Some(&e2) == direct.as_ref(), "C14", || format!("Report::decompose for {s:?} does not hand back error and input"));
                let mut it = f.splitn(5, ' ');
                let (k, po, so, co, rest) = (it.next()?, it.next()?, it.next()?, it.next()?, it.next()?);
                R::Err(format!("report {k} {po} {so} {co} {} {rest}", hex(subj.as_bytes())))
            }
        },
        "fromstr" => match s.parse::<PointerBuf>() {
            Ok(p) => R::Ok(p.as_str().to_string()),
            Err(e) => R::Err(format!("err {}", err_fields(&e, &s, out))),
        },
        "tryfromstr" => match PointerBuf::try_from(s.as_str()) {
            Ok(p) => R::Ok(p.as_str().to_string()),
            Err(e) => R::Err(format!("err {}", err_fields(&e, &s, out))),
        },
        "tryfromstring" => match PointerBuf::try_from(s.clone()) {
            Ok(p) => R::Ok(p.as_str().to_string()),
            Err(e) => R::Err(format!("err {}", err_fields(&e, &s, out))),
        },
        #[cfg(feature = "full")]
        "deborrowed" => {
            use serde::de::value::{BorrowedStrDeserializer, Error};
            use serde::Deserialize;
            match <&Pointer>::deserialize(BorrowedStrDeserializer::<Error>::new(&s)) {
                Ok(p) => {
                    out.check(p.as_str().as_ptr() == s.as_ptr(), "C02,C18", || {
                        format!("borrowed Deserialize of {s:?} is not a view of the input")
                    });
                    R::Ok(p.as_str().to_string())
                }
                Err(_) => R::Other("serdeerr"),
            }
        }
        #[cfg(feature = "full")]
        "deowned" => {
            use serde::de::value::{Error, StringDeserializer};
            use serde::Deserialize;
            let a = PointerBuf::deserialize(StringDeserializer::<Error>::new(s.clone()));
            let b = serde_json::from_value::<PointerBuf>(serde_json::Value::String(s.clone()));
            let c = serde_json::from_str::<PointerBuf>(&serde_json::to_string(&s).unwrap());
            out.check(
                a.is_ok() == b.is_ok() && a.is_ok() == c.is_ok()
                    && (a.is_err() || (a.as_ref().ok() == b.as_ref().ok() && a.as_ref().ok() == c.as_ref().ok())),
                "C02,C18",
                || format!("Deserialize for PointerBuf disagrees between deserializers on {s:?}"),
            );
            match a {
                Ok(p) => R::Ok(p.as_str().to_string()),
                Err(_) => R::Other("serdeerr"),
            }
        }
        "fromstatic" => {
            let st: &'static str = Box::leak(s.clone().into_boxed_str());
            match no_panic(|| Pointer::from_static(st)) {
                Some(p) => {
                    out.check(p.as_str().as_ptr() == st.as_ptr(), "C02", || "from_static is not a view".into());
                    R::Ok(p.as_str().to_string())
                }
                None => R::Other("panic"),
            }
        }
        _ => return None,
    };
    match r {
        R::Ok(t) => {
            out.observed = format!("ok {}", hex(t.as_bytes()));
            out.check(valid, "C02,C01", || format!("door {door} accepted {s:?}, which is not a valid RFC 6901 pointer"));
            out.check(t == s, "C02,C18", || format!("door {door} changed the text {s:?} to {t:?}"));
            out.check(rfc_ptr(t.as_bytes()), "C01", || format!("door {door} produced a pointer holding invalid text {t:?}"));
        }
        R::Err(f) => {
            out.observed = f;
            out.check(!valid, "C02", || format!("door {door} rejected the valid pointer {s:?}"));
        }
        R::Other(o) => {
            out.observed = o.to_string();
            out.check(!valid, "C02,C18", || format!("door {door} rejected the valid pointer {s:?}"));
        }
    }
    Some(())
}

const SIGMA: [&str; 7] = ["~", "/", "0", "1", "-", "a", "é"];

pub fn doors() -> Vec<&'static str> {
    let mut d = vec!["parse", "bufparse", "fromstr", "tryfromstr", "tryfromstring", "fromstatic"];
    if cfg!(feature = "full") {
        d.push("deborrowed");
        d.push("deowned");
    }
    d
}

pub fn gen(tier: &str, rng: &mut Rng, emit: &mut dyn FnMut(String)) {
    let max = if tier == "thorough" { 6 } else { 5 };
    let doors = doors();
    all_strings(&SIGMA, max, |s| {
        for d in &doors {
            emit(format!("door {d} {}", hex(s.as_bytes())));
        }
    });
    // pointer-shaped strings one symbol longer: "/" + every string
    all_strings(&SIGMA, max, |s| {
        let t = format!("/{s}{}", if s.len() % 2 == 0 { "~" } else { "/~0~" });
        for d in &doors {
            emit(format!("door {d} {}", hex(t.as_bytes())));
        }
    });
    for l in sweep_lengths(tier) {
        let a = "a".repeat(l);
        emit(format!("door parse {}", hex(format!("/{a}~").as_bytes())));
        emit(format!("door bufparse {}", hex(format!("/{a}/~0").as_bytes())));
    }
    for l in SCALE_64K {
        let a = "a".repeat(l);
        for t in [format!("/{a}~"), format!("/{a}/~1"), format!("{a}/b~1r"), format!("/{a}")] {
            for d in ["parse", "bufparse", "tryfromstring"] {
                emit(format!("door {d} {}", hex(t.as_bytes())));
            }
        }
    }
    for s in boundary_texts(tier) {
        let variants = [s.clone(), format!("/{s}"), format!("/{}", rfc_escape(&s)), format!("/ab/{}/cd", rfc_escape(&s).replace('/', "~1"))];
        for (i, t) in variants.iter().enumerate() {
            for d in &doors {
                // all doors on the pointer-shaped variants, the two main doors on the raw text
                if i > 0 || *d == "parse" || *d == "bufparse" {
                    emit(format!("door {d} {}", hex(t.as_bytes())));
                }
            }
        }
    }
    // wave 10 (C14-g): a bad '~' BEHIND word-sized runs of neighbour bytes of '/' and '~' ("/.", "/-", "/}", ...) at every alignment:
    // every prefix of 8..=40 bytes of a SWAR pointer, closed by "~", "~x" or "~é" - the offsets a word-at-a-time scanner must get right
    for p in crate::util::swar_pointers() {
        for l in 8..=40usize {
            if l > p.len() || !p.is_char_boundary(l) {
                continue;
            }
            for tail in ["~", "~x", "~\u{e9}"] {
                let t = format!("{}{tail}", &p[..l]);
                emit(format!("door parse {}", hex(t.as_bytes())));
                if l % 4 == 0 {
                    emit(format!("door bufparse {}", hex(t.as_bytes())));
                }
            }
        }
    }
    let n = if tier == "thorough" { 30_000 } else { 2_000 };
    for i in 0..n {
        let mut s = super::token::random_text(rng, if i % 40 == 0 { 3000 } else { 30 });
        if rng.chance(4, 5) {
            s.insert(0, '/');
        }
        for d in &doors {
            emit(format!("door {d} {}", hex(s.as_bytes())));
        }
    }
}
