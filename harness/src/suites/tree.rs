//! suites `tree` and `hist`: resolve / resolve_mut / assign / delete / write-through on
//! serde_json::Value and toml::Value  (C05 C06 C07 C08 C09 C10 C15)
use crate::oracles::*;
use crate::util::*;
use jsonptr::diagnostic::Diagnostic;
use jsonptr::index::ParseIndexError;
use jsonptr::{assign, resolve, Pointer, PointerBuf};
use std::collections::BTreeMap;

// ------------------------------------------------------------------ neutral documents

#[derive(Clone, Debug, PartialEq)]
pub enum Doc {
    Null,
    Bool(bool),
    Int(i64),
    Str(String),
    Other(u64),
    Arr(Vec<Doc>),
    Obj(BTreeMap<String, Doc>),
}

pub fn parse_doc<'a>(fs: &mut std::slice::Iter<'a, &'a str>) -> Option<Doc> {
    let f = *fs.next()?;
    Some(match f {
        "n" => Doc::Null,
        "t" => Doc::Bool(true),
        "f" => Doc::Bool(false),
        "[" => {
            let mut v = vec![];
            loop {
                if **fs.as_slice().first()? == *"]" {
                    fs.next();
                    break;
                }
                v.push(parse_doc(fs)?);
            }
            Doc::Arr(v)
        }
        "{" => {
            let mut m = BTreeMap::new();
            loop {
                let k = *fs.next()?;
                if k == "}" {
                    break;
                }
                let key = String::from_utf8(unhex(&format!("x{}", k.strip_prefix('k')?))?).ok()?;
                m.insert(key, parse_doc(fs)?);
            }
            Doc::Obj(m)
        }
        _ => match &f[..1] {
            "i" => Doc::Int(f[1..].parse().ok()?),
            "s" => Doc::Str(String::from_utf8(unhex(&format!("x{}", &f[1..]))?).ok()?),
            "o" => Doc::Other(f[1..].parse().ok()?),
            _ => return None,
        },
    })
}

pub fn print_doc(d: &Doc, o: &mut Vec<String>) {
    match d {
        Doc::Null => o.push("n".into()),
        Doc::Bool(true) => o.push("t".into()),
        Doc::Bool(false) => o.push("f".into()),
        Doc::Int(i) => o.push(format!("i{i}")),
        Doc::Str(s) => o.push(format!("s{}", &hex(s.as_bytes())[1..])),
        Doc::Other(t) => o.push(format!("o{t}")),
        Doc::Arr(v) => {
            o.push("[".into());
            for c in v {
                print_doc(c, o);
            }
            o.push("]".into());
        }
        Doc::Obj(m) => {
            o.push("{".into());
            for (k, c) in m {
                o.push(format!("k{}", &hex(k.as_bytes())[1..]));
                print_doc(c, o);
            }
            o.push("}".into());
        }
    }
}

pub fn doc_str(d: &Doc) -> String {
    let mut o = vec![];
    print_doc(d, &mut o);
    o.join(" ")
}

fn to_json(d: &Doc) -> serde_json::Value {
    use serde_json::Value as V;
    match d {
        Doc::Null => V::Null,
        Doc::Bool(b) => V::Bool(*b),
        Doc::Int(i) => V::from(*i),
        Doc::Str(s) => V::String(s.clone()),
        Doc::Other(t) => V::from(*t as f64 + 0.5),
        Doc::Arr(v) => V::Array(v.iter().map(to_json).collect()),
        Doc::Obj(m) => V::Object(m.iter().map(|(k, c)| (k.clone(), to_json(c))).collect()),
    }
}

fn from_json(v: &serde_json::Value) -> Doc {
    use serde_json::Value as V;
    match v {
        V::Null => Doc::Null,
        V::Bool(b) => Doc::Bool(*b),
        V::Number(n) => match n.as_i64() {
            Some(i) => Doc::Int(i),
            None => Doc::Other(n.as_f64().unwrap_or(0.0) as u64),
        },
        V::String(s) => Doc::Str(s.clone()),
        V::Array(a) => Doc::Arr(a.iter().map(from_json).collect()),
        V::Object(m) => Doc::Obj(m.iter().map(|(k, c)| (k.clone(), from_json(c))).collect()),
    }
}

fn to_toml(d: &Doc) -> Option<toml::Value> {
    use toml::Value as V;
    Some(match d {
        Doc::Null => return None,
        Doc::Bool(b) => V::Boolean(*b),
        Doc::Int(i) => V::Integer(*i),
        Doc::Str(s) => V::String(s.clone()),
        Doc::Other(t) => V::Float(*t as f64 + 0.5),
        Doc::Arr(v) => V::Array(v.iter().map(to_toml).collect::<Option<_>>()?),
        Doc::Obj(m) => V::Table(m.iter().map(|(k, c)| Some((k.clone(), to_toml(c)?))).collect::<Option<_>>()?),
    })
}

fn from_toml(v: &toml::Value) -> Doc {
    use toml::Value as V;
    match v {
        V::Boolean(b) => Doc::Bool(*b),
        V::Integer(i) => Doc::Int(*i),
        V::String(s) => Doc::Str(s.clone()),
        V::Float(f) => Doc::Other(*f as u64),
        V::Datetime(_) => Doc::Other(u64::MAX),
        V::Array(a) => Doc::Arr(a.iter().map(from_toml).collect()),
        V::Table(m) => Doc::Obj(m.iter().map(|(k, c)| (k.clone(), from_toml(c))).collect()),
    }
}

// ------------------------------------------------------------------ independent reference (from the prose)

#[derive(Clone, Debug, PartialEq)]
pub enum Sel {
    Idx(usize),
    Key(String),
}

#[derive(Clone, Debug, PartialEq)]
pub enum RefErr {
    Unreachable,
    NotFound,
    BadIndex,
    OutOfBounds { len: usize, idx: usize },
}

enum RefIdx {
    Next,
    Num(usize),
    Bad,
}

/// RFC 6901 array index: "-", "0", or digits without a leading zero that fit usize
fn ref_index(t: &str) -> RefIdx {
    if t == "-" {
        return RefIdx::Next;
    }
    let b = t.as_bytes();
    if b.is_empty() || !b.iter().all(u8::is_ascii_digit) || (b.len() > 1 && b[0] == b'0') {
        return RefIdx::Bad;
    }
    match t.parse::<u128>() {
        Ok(v) if v <= usize::MAX as u128 => RefIdx::Num(v as usize),
        _ => RefIdx::Bad,
    }
}

/// walk; Ok(selector path) or Err((position, error))
pub fn ref_resolve(d: &Doc, toks: &[&str]) -> Result<Vec<Sel>, (usize, RefErr)> {
    let mut cur = d;
    let mut path = vec![];
    for (pos, t) in toks.iter().enumerate() {
        match cur {
            Doc::Arr(a) => match ref_index(t) {
                RefIdx::Bad => return Err((pos, RefErr::BadIndex)),
                RefIdx::Next => return Err((pos, RefErr::OutOfBounds { len: a.len(), idx: a.len() })),
                RefIdx::Num(i) if i >= a.len() => return Err((pos, RefErr::OutOfBounds { len: a.len(), idx: i })),
                RefIdx::Num(i) => {
                    cur = &a[i];
                    path.push(Sel::Idx(i));
                }
            },
            Doc::Obj(m) => {
                let k = rfc_unescape(t);
                match m.get(&k) {
                    Some(c) => {
                        cur = c;
                        path.push(Sel::Key(k));
                    }
                    None => return Err((pos, RefErr::NotFound)),
                }
            }
            _ => return Err((pos, RefErr::Unreachable)),
        }
    }
    Ok(path)
}

pub fn get_path<'a>(d: &'a Doc, path: &[Sel]) -> Option<&'a Doc> {
    let mut cur = d;
    for s in path {
        cur = match (s, cur) {
            (Sel::Idx(i), Doc::Arr(a)) => a.get(*i)?,
            (Sel::Key(k), Doc::Obj(m)) => m.get(k)?,
            _ => return None,
        };
    }
    Some(cur)
}

fn get_path_mut<'a>(d: &'a mut Doc, path: &[Sel]) -> Option<&'a mut Doc> {
    let mut cur = d;
    for s in path {
        cur = match (s, cur) {
            (Sel::Idx(i), Doc::Arr(a)) => a.get_mut(*i)?,
            (Sel::Key(k), Doc::Obj(m)) => m.get_mut(k)?,
            _ => return None,
        };
    }
    Some(cur)
}

/// "the remaining tokens are materialised around v"
fn materialise(toks: &[&str], v: Doc) -> Doc {
    let mut v = v;
    for t in toks.iter().rev() {
        if *t == "0" || *t == "-" {
            v = Doc::Arr(vec![v]);
        } else {
            let mut m = BTreeMap::new();
            m.insert(rfc_unescape(t), v);
            v = Doc::Obj(m);
        }
    }
    v
}

/// reference assign, from the property text
pub fn ref_assign(d: &mut Doc, toks: &[&str], v: Doc) -> Result<Option<Doc>, (usize, RefErr)> {
    if toks.is_empty() {
        return Ok(Some(std::mem::replace(d, v)));
    }
    let t = toks[0];
    match d {
        Doc::Arr(a) => {
            let i = match ref_index(t) {
                RefIdx::Bad => return Err((0, RefErr::BadIndex)),
                RefIdx::Next => a.len(),
                RefIdx::Num(i) => i,
            };
            if i > a.len() {
                return Err((0, RefErr::OutOfBounds { len: a.len(), idx: i }));
            }
            if i == a.len() {
                a.push(materialise(&toks[1..], v));
                Ok(None)
            } else {
                ref_assign(&mut a[i], &toks[1..], v).map_err(|(p, e)| (p + 1, e))
            }
        }
        Doc::Obj(m) => {
            let k = rfc_unescape(t);
            match m.get_mut(&k) {
                Some(c) => ref_assign(c, &toks[1..], v).map_err(|(p, e)| (p + 1, e)),
                None => {
                    m.insert(k, materialise(&toks[1..], v));
                    Ok(None)
                }
            }
        }
        _ => Ok(Some(std::mem::replace(d, materialise(toks, v)))),
    }
}

/// reference delete, from the property text
pub fn ref_delete(d: &mut Doc, toks: &[&str], root_left: Doc) -> Option<Doc> {
    if toks.is_empty() {
        return Some(std::mem::replace(d, root_left));
    }
    let path = ref_resolve(d, toks).ok()?;
    let (last, parent_path) = path.split_last()?;
    let parent = get_path_mut(d, parent_path)?;
    match (last, parent) {
        (Sel::Idx(i), Doc::Arr(a)) => Some(a.remove(*i)),
        (Sel::Key(k), Doc::Obj(m)) => m.remove(k),
        _ => None,
    }
}

/// every selector path of a document, in pre-order
pub fn all_paths(d: &Doc) -> Vec<Vec<Sel>> {
    fn rec(d: &Doc, cur: &mut Vec<Sel>, out: &mut Vec<Vec<Sel>>) {
        out.push(cur.clone());
        match d {
            Doc::Arr(a) => {
                for (i, c) in a.iter().enumerate() {
                    cur.push(Sel::Idx(i));
                    rec(c, cur, out);
                    cur.pop();
                }
            }
            Doc::Obj(m) => {
                for (k, c) in m {
                    cur.push(Sel::Key(k.clone()));
                    rec(c, cur, out);
                    cur.pop();
                }
            }
            _ => {}
        }
    }
    let mut out = vec![];
    rec(d, &mut vec![], &mut out);
    out
}

pub fn ptr_of_path(path: &[Sel]) -> String {
    path.iter()
        .map(|s| match s {
            Sel::Idx(i) => format!("/{i}"),
            Sel::Key(k) => format!("/{}", rfc_escape(k)),
        })
        .collect()
}

fn path_field(p: &[Sel]) -> String {
    let items: Vec<String> = p
        .iter()
        .map(|s| match s {
            Sel::Idx(i) => format!("i{i}"),
            Sel::Key(k) => format!("k{}", &hex(k.as_bytes())[1..]),
        })
        .collect();
    format!("P{}", items.join(","))
}

// ------------------------------------------------------------------ backends

/// what the harness needs from a value type; implemented for serde_json::Value and toml::Value
pub trait Backend: Sized + Clone + PartialEq + std::fmt::Debug {
    const NAME: &'static str;
    fn from_doc(d: &Doc) -> Option<Self>;
    fn to_doc(&self) -> Doc;
    fn root_left() -> Doc;
    fn child(&self, s: &Sel) -> Option<&Self>;
    fn children(&self) -> Vec<(Sel, &Self)>;
    fn resolve<'a>(&'a self, p: &Pointer) -> Result<&'a Self, resolve::Error>;
    fn resolve_mut<'a>(&'a mut self, p: &Pointer) -> Result<&'a mut Self, resolve::Error>;
    fn assign(&mut self, p: &Pointer, v: Self) -> Result<Option<Self>, assign::Error>;
    fn delete(&mut self, p: &Pointer) -> Option<Self>;
}

impl Backend for serde_json::Value {
    const NAME: &'static str = "json";
    fn from_doc(d: &Doc) -> Option<Self> {
        Some(to_json(d))
    }
    fn to_doc(&self) -> Doc {
        from_json(self)
    }
    fn root_left() -> Doc {
        Doc::Null
    }
    fn child(&self, s: &Sel) -> Option<&Self> {
        match s {
            Sel::Idx(i) => self.as_array()?.get(*i),
            Sel::Key(k) => self.as_object()?.get(k),
        }
    }
    fn children(&self) -> Vec<(Sel, &Self)> {
        match self {
            serde_json::Value::Array(a) => a.iter().enumerate().map(|(i, c)| (Sel::Idx(i), c)).collect(),
            serde_json::Value::Object(m) => m.iter().map(|(k, c)| (Sel::Key(k.clone()), c)).collect(),
            _ => vec![],
        }
    }
    fn resolve<'a>(&'a self, p: &Pointer) -> Result<&'a Self, resolve::Error> {
        p.resolve(self)
    }
    fn resolve_mut<'a>(&'a mut self, p: &Pointer) -> Result<&'a mut Self, resolve::Error> {
        p.resolve_mut(self)
    }
    fn assign(&mut self, p: &Pointer, v: Self) -> Result<Option<Self>, assign::Error> {
        p.assign(self, v)
    }
    fn delete(&mut self, p: &Pointer) -> Option<Self> {
        p.delete(self)
    }
}

impl Backend for toml::Value {
    const NAME: &'static str = "toml";
    fn from_doc(d: &Doc) -> Option<Self> {
        to_toml(d)
    }
    fn to_doc(&self) -> Doc {
        from_toml(self)
    }
    fn root_left() -> Doc {
        Doc::Obj(BTreeMap::new())
    }
    fn child(&self, s: &Sel) -> Option<&Self> {
        match s {
            Sel::Idx(i) => self.as_array()?.get(*i),
            Sel::Key(k) => self.as_table()?.get(k),
        }
    }
    fn children(&self) -> Vec<(Sel, &Self)> {
        match self {
            toml::Value::Array(a) => a.iter().enumerate().map(|(i, c)| (Sel::Idx(i), c)).collect(),
            toml::Value::Table(m) => m.iter().map(|(k, c)| (Sel::Key(k.clone()), c)).collect(),
            _ => vec![],
        }
    }
    fn resolve<'a>(&'a self, p: &Pointer) -> Result<&'a Self, resolve::Error> {
        p.resolve(self)
    }
    fn resolve_mut<'a>(&'a mut self, p: &Pointer) -> Result<&'a mut Self, resolve::Error> {
        p.resolve_mut(self)
    }
    fn assign(&mut self, p: &Pointer, v: Self) -> Result<Option<Self>, assign::Error> {
        p.assign(self, v)
    }
    fn delete(&mut self, p: &Pointer) -> Option<Self> {
        p.delete(self)
    }
}

/// the path of the node `target` points at inside `root` (by address), if any
fn find_node<B: Backend>(root: &B, target: *const B) -> Option<Vec<Sel>> {
    fn rec<B: Backend>(n: &B, target: *const B, cur: &mut Vec<Sel>) -> bool {
        if std::ptr::eq(n, target) {
            return true;
        }
        for (s, c) in n.children() {
            cur.push(s);
            if rec(c, target, cur) {
                return true;
            }
            cur.pop();
        }
        false
    }
    let mut cur = vec![];
    rec(root, target, &mut cur).then_some(cur)
}

// ------------------------------------------------------------------ error rendering + C15 oracles

fn pie(e: &ParseIndexError) -> String {
    match e {
        ParseIndexError::LeadingZeros => "lz".into(),
        ParseIndexError::InvalidCharacter(c) => format!("ic {}", c.offset()),
        ParseIndexError::InvalidInteger(i) => match i.kind() {
            core::num::IntErrorKind::Empty => "ii empty".into(),
            core::num::IntErrorKind::PosOverflow => "ii overflow".into(),
            k => format!("ii other:{k:?}"),
        },
    }
}

fn label_field(labels: Option<Option<Vec<String>>>, out: &mut Out, ptr: &str) -> String {
    match labels {
        None => {
            out.fail("C15", format!("computing the diagnostic label for {ptr:?} panicked"));
            "label panic".into()
        }
        Some(None) => "label none".into(),
        Some(Some(v)) if v.len() == 1 => match label_numbers(&v[0]) {
            Some((o, l)) => format!("label {o} {l}"),
            None => "label unparsable".into(),
        },
        Some(Some(v)) => format!("label count{}", v.len()),
    }
}

/// C15: position / offset / label of a failed walk, checked directly against the pointer
fn check_location(op: &str, ptr: &str, position: usize, offset: usize, label: &str, out: &mut Out) {
    let p = match Pointer::parse(ptr) {
        Ok(p) => p,
        Err(_) => return,
    };
    let toks = ref_tokens(ptr);
    if position >= toks.len() {
        out.fail("C15,C10", format!("{op} on {ptr:?}: error position {position} is not a token index (count {})", toks.len()));
        return;
    }
    let want_off: usize = toks[..position].iter().map(|t| 1 + t.len()).sum();
    out.check(offset == want_off, "C15,C10", || format!("{op} on {ptr:?}: error offset {offset} at position {position}, expected {want_off}"));
    out.check(ptr.as_bytes().get(offset) == Some(&b'/'), "C15,C10", || format!("{op} on {ptr:?}: byte at error offset {offset} is not '/'"));
    match p.split_at(offset) {
        Some((h, t)) => out.check(
            ref_tokens(h.as_str()) == toks[..position] && ref_tokens(t.as_str()) == toks[position..],
            "C15",
            || format!("{op} on {ptr:?}: split_at(offset {offset}) does not cut directly before token {position}"),
        ),
        None => out.fail("C15", format!("{op} on {ptr:?}: split_at(error offset {offset}) is None")),
    }
    out.check(p.get(position).map(|t| t.encoded().to_string()).as_deref() == Some(toks[position]), "C15", || {
        format!("{op} on {ptr:?}: get(position {position}) is not the culprit")
    });
    // label: exactly the culprit's bytes; for an empty token an empty span at that place
    let f: Vec<&str> = label.split(' ').collect();
    if f.len() == 3 {
        if let (Ok(o), Ok(l)) = (f[1].parse::<usize>(), f[2].parse::<usize>()) {
            let tok = toks[position];
            if tok.is_empty() {
                // an empty span where the token's bytes would be, i.e. directly after its '/'; only when that place is the very end
                // of the text may the span sit on the final '/' instead (what the crate does there)
                let at_place = o == offset + 1 || (offset + 1 == ptr.len() && o == offset);
                out.check(l == 0 && at_place && o <= ptr.len(), "C15", || {
                    format!("{op} on {ptr:?}: label ({o}, {l}) for the empty token at position {position} (offset {offset})")
                });
            } else {
                out.check(o == offset + 1 && l == tok.len() && ptr.get(o..o + l) == Some(tok), "C15", || {
                    format!("{op} on {ptr:?}: label ({o}, {l}) does not cover token {tok:?} at [{}, {})", offset + 1, offset + 1 + tok.len())
                });
            }
        } else {
            out.fail("C15", format!("{op} on {ptr:?}: label is {label:?}"));
        }
    } else {
        out.fail("C15", format!("{op} on {ptr:?}: label is {label:?}"));
    }
}

fn resolve_err_fields(op: &str, e: &resolve::Error, ptr: &str, out: &mut Out) -> String {
    let (kind, payload) = match e {
        resolve::Error::FailedToParseIndex { source, .. } => ("fpi", format!(" {}", pie(source))),
        resolve::Error::OutOfBounds { source, .. } => ("oob", format!(" {} {}", source.length, source.index)),
        resolve::Error::NotFound { .. } => ("nf", String::new()),
        resolve::Error::Unreachable { .. } => ("unr", String::new()),
    };
    let labels = no_panic(|| {
        let subject = PointerBuf::parse(ptr).ok()?;
        Some(e.labels(&subject).map(|it| it.map(|l| format!("{l:?}")).collect::<Vec<_>>()))
    })
    .map(|x| x.flatten());
    let label = label_field(labels, out, ptr);
    check_location(op, ptr, e.position(), e.offset(), &label, out);
    if no_panic(|| format!("{e} {e:?}")).is_none() {
        out.fail("C15", format!("formatting the resolve error for {ptr:?} panicked"));
    }
    // the variant predicates and the error-source chain agree with the variant
    let preds = (e.is_failed_to_parse_index(), e.is_out_of_bounds(), e.is_not_found(), e.is_unreachable());
    out.check(preds == (kind == "fpi", kind == "oob", kind == "nf", kind == "unr"), "C05,C15", || format!("is_* predicates {preds:?} disagree with the variant {kind} for {ptr:?}"));
    #[cfg(feature = "full")]
    {
        let has_source = std::error::Error::source(e).is_some();
        out.check(has_source == (kind == "fpi" || kind == "oob"), "C15", || format!("Error::source() presence {has_source} disagrees with the variant {kind} for {ptr:?}"));
    }
    format!("err {kind} {} {}{payload} {label}", e.position(), e.offset())
}

fn assign_err_fields(e: &assign::Error, ptr: &str, out: &mut Out) -> String {
    let (kind, payload) = match e {
        assign::Error::FailedToParseIndex { source, .. } => ("fpi", format!(" {}", pie(source))),
        assign::Error::OutOfBounds { source, .. } => ("oob", format!(" {} {}", source.length, source.index)),
    };
    let labels = no_panic(|| {
        let subject = PointerBuf::parse(ptr).ok()?;
        Some(e.labels(&subject).map(|it| it.map(|l| format!("{l:?}")).collect::<Vec<_>>()))
    })
    .map(|x| x.flatten());
    let label = label_field(labels, out, ptr);
    check_location("assign", ptr, e.position(), e.offset(), &label, out);
    if no_panic(|| format!("{e} {e:?}")).is_none() {
        out.fail("C15", format!("formatting the assign error for {ptr:?} panicked"));
    }
    let preds = (e.is_failed_to_parse_index(), e.is_out_of_bounds());
    out.check(preds == (kind == "fpi", kind == "oob"), "C06,C15", || format!("is_* predicates {preds:?} disagree with the variant {kind} for {ptr:?}"));
    #[cfg(feature = "full")]
    {
        let has_source = std::error::Error::source(e).is_some();
        out.check(has_source, "C15", || format!("assign::Error::source() is None for {ptr:?}"));
    }
    format!("err {kind} {} {}{payload} {label}", e.position(), e.offset())
}

/// compare a resolve::Error with the reference verdict
fn check_resolve_err(op: &str, e: &resolve::Error, want: &(usize, RefErr), ptr: &str, doc: &Doc, toks: &[&str], out: &mut Out) {
    let ok = e.position() == want.0
        && match (&want.1, e) {
            (RefErr::Unreachable, resolve::Error::Unreachable { .. }) => true,
            (RefErr::NotFound, resolve::Error::NotFound { .. }) => true,
            (RefErr::BadIndex, resolve::Error::FailedToParseIndex { source, .. }) => {
                // the reason is the one for the token's own text
                toks[want.0].parse::<jsonptr::index::Index>().as_ref().err() == Some(source) && index_reason_ok(&toks[want.0], source)
            }
            (RefErr::OutOfBounds { len, idx }, resolve::Error::OutOfBounds { source, .. }) => source.length == *len && source.index == *idx,
            _ => false,
        };
    out.check(ok, "C05,C15,C10", || format!("{op}({ptr:?}) on {} fails with {e:?}, the reference walk says {want:?}", doc_str(doc)));
}


/// the reason an index-parse error must carry for a token's own text, decided without the crate's parser
/// (RFC 6901 array index grammar; the crate checks the leading zero before it looks for a non-digit)
fn index_reason_ok(tok: &str, source: &jsonptr::index::ParseIndexError) -> bool {
    use jsonptr::index::ParseIndexError as E;
    let b = tok.as_bytes();
    if b.len() > 1 && b[0] == b'0' {
        return matches!(source, E::LeadingZeros);
    }
    if let Some(k) = tok.chars().position(|c| !c.is_ascii_digit()) {
        return match source {
            E::InvalidCharacter(e) => e.offset() == k && e.source() == tok && tok.chars().nth(k) == Some(e.char()),
            _ => false,
        };
    }
    match source {
        E::InvalidInteger(e) => {
            let fits = !b.is_empty() && b.len() <= 20 && tok.parse::<u128>().map(|v| v <= usize::MAX as u128).unwrap_or(false);
            !fits && (b.is_empty() == matches!(e.kind(), std::num::IntErrorKind::Empty)) && (b.is_empty() || matches!(e.kind(), std::num::IntErrorKind::PosOverflow))
        }
        _ => false,
    }
}

// ------------------------------------------------------------------ operations

struct State<B: Backend> {
    real: B,
    reference: Doc,
}

fn do_resolve<B: Backend>(st: &mut State<B>, mutable: bool, ptr: &str, out: &mut Out) -> Option<String> {
    let p = Pointer::parse(ptr).ok()?;
    let toks = ref_tokens(ptr);
    let want = ref_resolve(&st.reference, &toks);
    let op = if mutable { "resolve_mut" } else { "resolve" };
    let real_ptr: *const B = &st.real;
    let r = if mutable {
        no_panic(|| st.real.resolve_mut(p).map(|r| r as *const B))
    } else {
        no_panic(|| st.real.resolve(p).map(|r| r as *const B))
    };
    let _ = real_ptr;
    Some(match r {
        None => {
            out.fail("C05,C10,C09", format!("{op}({ptr:?}) on {} panicked", doc_str(&st.reference)));
            "panic".into()
        }
        Some(Ok(node)) => {
            let path = find_node(&st.real, node);
            // SAFETY: node points into st.real, which is alive and not mutated here
            let val = unsafe { &*node }.to_doc();
            match &want {
                Ok(wp) => {
                    out.check(path.as_ref() == Some(wp), "C05,C09", || {
                        format!("{op}({ptr:?}) on {} returns a reference to node {path:?}, the walk reaches {wp:?} (None = not a node of the document, i.e. a copy)", doc_str(&st.reference))
                    });
                    out.check(get_path(&st.reference, wp) == Some(&val), "C05,C10", || format!("{op}({ptr:?}) returns the value {}", doc_str(&val)));
                }
                Err(w) => out.fail("C05,C10", format!("{op}({ptr:?}) on {} succeeds, the reference walk fails with {w:?}", doc_str(&st.reference))),
            }
            format!("ok {} {}", opt(path, |p| path_field(&p)).replace('-', "Pcopy"), doc_str(&val))
        }
        Some(Err(e)) => {
            match &want {
                Err(w) => check_resolve_err(op, &e, w, ptr, &st.reference, &toks, out),
                Ok(_) => out.fail("C05,C10", format!("{op}({ptr:?}) on {} fails with {e:?} but the walk reaches a node", doc_str(&st.reference))),
            }
            resolve_err_fields(op, &e, ptr, out)
        }
    })
}

fn do_assign<B: Backend>(st: &mut State<B>, ptr: &str, src: &Doc, out: &mut Out) -> Option<String> {
    let p = Pointer::parse(ptr).ok()?;
    let toks = ref_tokens(ptr);
    let before = st.reference.clone();
    let resolved_before = ref_resolve(&before, &toks).ok().and_then(|pa| get_path(&before, &pa).cloned());
    let v = B::from_doc(src)?;
    let want = ref_assign(&mut st.reference, &toks, src.clone());
    let r = no_panic(|| st.real.assign(p, v));
    let after = st.real.to_doc();
    let ctx = || format!("assign({ptr:?}, {}) on {}", doc_str(src), doc_str(&before));
    Some(match r {
        None => {
            out.fail("C06,C10", format!("{} panicked", ctx()));
            st.reference = after;
            "panic".into()
        }
        Some(Ok(replaced)) => {
            let rep = replaced.as_ref().map(|r| r.to_doc());
            match &want {
                Ok(wrep) => {
                    out.check(after == st.reference, "C06,C10", || format!("{} leaves {}, the rules give {}", ctx(), doc_str(&after), doc_str(&st.reference)));
                    out.check(&rep == wrep, "C06,C10", || format!("{} returns {:?}, the rules give {:?}", ctx(), rep.as_ref().map(doc_str), wrep.as_ref().map(doc_str)));
                }
                Err(w) => out.fail("C06,C10", format!("{} succeeds, the rules give the error {w:?}", ctx())),
            }
            // ---- C07 laws, executed on the real crate
            // read-your-write: resolve the same pointer, each '-' that addressed an array read as the new last index
            {
                let mut cur = &after;
                let mut okp = true;
                for t in &toks {
                    cur = match cur {
                        Doc::Arr(a) => {
                            let i = if *t == "-" { a.len().checked_sub(1) } else { t.parse::<usize>().ok() };
                            match i.and_then(|i| a.get(i)) {
                                Some(c) => c,
                                None => {
                                    okp = false;
                                    break;
                                }
                            }
                        }
                        Doc::Obj(m) => match m.get(&rfc_unescape(t)) {
                            Some(c) => c,
                            None => {
                                okp = false;
                                break;
                            }
                        },
                        _ => {
                            okp = false;
                            break;
                        }
                    };
                }
                out.check(okp && cur == src, "C07", || format!("after {} the assigned value is not found at the pointer (document {})", ctx(), doc_str(&after)));
                if !toks.contains(&"-") {
                    let rr = st.real.resolve(p).ok().map(|n| n.to_doc());
                    out.check(rr.as_ref() == Some(src), "C07", || format!("after {} resolve({ptr:?}) gives {:?}", ctx(), rr.as_ref().map(doc_str)));
                }
            }
            // frame: every old location neither on the assigned path nor below it keeps its value
            for path in all_paths(&before) {
                let q = ptr_of_path(&path);
                let qt = ref_tokens(&q);
                let related = (qt.len() <= toks.len() && toks[..qt.len()] == qt[..]) || (qt.len() >= toks.len() && qt[..toks.len()] == toks[..]);
                // '-' in p names no old location; decoded comparison for keys is by the path's own spelling
                let related = related || {
                    // the same location may be spelled differently only through '-'; '-' never names an old node
                    false
                };
                if !related {
                    let old = get_path(&before, &path);
                    let new = Pointer::parse(&q).ok().and_then(|qp| st.real.resolve(qp).ok().map(|n| n.to_doc()));
                    out.check(old == new.as_ref(), "C07", || format!("{} changed the unrelated location {q:?} from {:?} to {:?}", ctx(), old.map(doc_str), new.as_ref().map(doc_str)));
                }
            }
            // replaced == what the pointer resolved to before; None only if nothing that existed was overwritten
            if let Some(w) = &resolved_before {
                out.check(rep.as_ref() == Some(w), "C07", || format!("{} returned {:?} but the pointer resolved to {} before", ctx(), rep.as_ref().map(doc_str), doc_str(w)));
            }
            if rep.is_none() {
                for path in all_paths(&before) {
                    let q = ptr_of_path(&path);
                    let old = get_path(&before, &path).unwrap();
                    // containers on the path grow; compare scalars and everything off the path by value, containers by kind
                    let new = Pointer::parse(&q).ok().and_then(|qp| st.real.resolve(qp).ok().map(|n| n.to_doc()));
                    let same = match (&old, &new) {
                        (Doc::Arr(_), Some(Doc::Arr(_))) | (Doc::Obj(_), Some(Doc::Obj(_))) => true,
                        (o, Some(n)) => *o == n,
                        _ => false,
                    };
                    out.check(same, "C07", || format!("{} returned None but overwrote the existing location {q:?}", ctx()));
                }
            }
            // idempotence of a '-'-free assignment
            if !toks.contains(&"-") {
                let mut again = st.real.clone();
                let r2 = no_panic(|| again.assign(p, B::from_doc(src).unwrap()));
                match r2 {
                    Some(Ok(Some(x))) => out.check(x.to_doc() == *src && again == st.real, "C07", || format!("repeating {} returns {} / changes the document", ctx(), doc_str(&x.to_doc()))),
                    other => out.fail("C07", format!("repeating {} gives {other:?}", ctx())),
                }
            }
            st.reference = after.clone();
            format!("ok {} doc {}", match &rep { Some(r) => format!("some {}", doc_str(r)), None => "none".into() }, doc_str(&after))
        }
        Some(Err(e)) => {
            out.check(after == before, "C07,C10", || format!("{} failed with {e:?} but changed the document to {}", ctx(), doc_str(&after)));
            match &want {
                Err(w) => {
                    let ok = e.position() == w.0
                        && match (&w.1, &e) {
                            (RefErr::BadIndex, assign::Error::FailedToParseIndex { source, .. }) => toks[w.0].parse::<jsonptr::index::Index>().as_ref().err() == Some(source) && index_reason_ok(&toks[w.0], source),
                            (RefErr::OutOfBounds { len, idx }, assign::Error::OutOfBounds { source, .. }) => source.length == *len && source.index == *idx,
                            _ => false,
                        };
                    out.check(ok, "C06,C15,C10", || format!("{} fails with {e:?}, the rules give {w:?}", ctx()));
                }
                Ok(_) => out.fail("C06,C10", format!("{} fails with {e:?}, the rules say it succeeds", ctx())),
            }
            st.reference = after.clone();
            format!("{} doc {}", assign_err_fields(&e, ptr, out), doc_str(&after))
        }
    })
}

fn do_delete<B: Backend>(st: &mut State<B>, ptr: &str, out: &mut Out) -> Option<String> {
    let p = Pointer::parse(ptr).ok()?;
    let toks = ref_tokens(ptr);
    let before = st.reference.clone();
    let resolved = st.real.resolve(p).ok().map(|n| n.to_doc());
    let want = ref_delete(&mut st.reference, &toks, B::root_left());
    let r = no_panic(|| st.real.delete(p));
    let after = st.real.to_doc();
    let ctx = || format!("delete({ptr:?}) on {}", doc_str(&before));
    Some(match r {
        None => {
            out.fail("C08,C10", format!("{} panicked", ctx()));
            st.reference = after;
            "panic".into()
        }
        Some(got) => {
            let g = got.as_ref().map(|x| x.to_doc());
            out.check(g == want, "C08,C10", || format!("{} returns {:?}, expected {:?}", ctx(), g.as_ref().map(doc_str), want.as_ref().map(doc_str)));
            out.check(g == resolved, "C08", || format!("{} returns {:?} but resolve found {:?}", ctx(), g.as_ref().map(doc_str), resolved.as_ref().map(doc_str)));
            out.check(after == st.reference, "C08,C10", || format!("{} leaves {}, expected {}", ctx(), doc_str(&after), doc_str(&st.reference)));
            if g.is_none() {
                out.check(after == before, "C08", || format!("{} returned None but changed the document", ctx()));
            }
            st.reference = after.clone();
            format!("{} doc {}", match &g { Some(r) => format!("some {}", doc_str(r)), None => "none".into() }, doc_str(&after))
        }
    })
}

fn do_write<B: Backend>(st: &mut State<B>, ptr: &str, src: &Doc, out: &mut Out) -> Option<String> {
    let p = Pointer::parse(ptr).ok()?;
    let toks = ref_tokens(ptr);
    let before = st.reference.clone();
    let v = B::from_doc(src)?;
    let want = ref_resolve(&before, &toks);
    let r = no_panic(|| match st.real.resolve_mut(p) {
        Ok(slot) => {
            *slot = v;
            Ok(())
        }
        Err(e) => Err(e),
    });
    let after = st.real.to_doc();
    let ctx = || format!("*resolve_mut({ptr:?}) = {} on {}", doc_str(src), doc_str(&before));
    Some(match r {
        None => {
            out.fail("C09,C10", format!("{} panicked", ctx()));
            st.reference = after;
            "panic".into()
        }
        Some(Ok(())) => {
            match &want {
                Ok(path) => {
                    let mut expect = before.clone();
                    *get_path_mut(&mut expect, path).unwrap() = src.clone();
                    out.check(after == expect, "C09,C10", || format!("{} leaves {}, expected {}", ctx(), doc_str(&after), doc_str(&expect)));
                    let rr = st.real.resolve(p).ok().map(|n| n.to_doc());
                    out.check(rr.as_ref() == Some(src), "C09", || format!("after {} resolve reads {:?}", ctx(), rr.as_ref().map(doc_str)));
                }
                Err(w) => out.fail("C09,C10,C05", format!("{} succeeds, the reference walk fails with {w:?}", ctx())),
            }
            st.reference = after.clone();
            format!("ok doc {}", doc_str(&after))
        }
        Some(Err(e)) => {
            out.check(after == before, "C09,C10", || format!("{} failed but changed the document", ctx()));
            match &want {
                Err(w) => check_resolve_err("resolve_mut", &e, w, ptr, &before, &toks, out),
                Ok(_) => out.fail("C09,C10,C05", format!("{} fails with {e:?} but the walk reaches a node", ctx())),
            }
            st.reference = after.clone();
            resolve_err_fields("resolve_mut", &e, ptr, out)
        }
    })
}

/// every node of the document resolves, by reference, from the pointer spelled from its path
fn do_nodes<B: Backend>(st: &State<B>, out: &mut Out) -> String {
    let paths = all_paths(&st.reference);
    let mut okc = 0;
    for path in &paths {
        let q = ptr_of_path(path);
        let mut node = &st.real;
        for s in path {
            node = node.child(s).expect("path of the reference exists in the real document");
        }
        let good = match Pointer::parse(&q) {
            Ok(qp) => match st.real.resolve(qp) {
                Ok(r) => std::ptr::eq(r, node),
                Err(_) => false,
            },
            Err(_) => false,
        };
        out.check(good, "C05,C10", || format!("node {path:?} of {} is not resolved (by reference) by its pointer {q:?}", doc_str(&st.reference)));
        okc += good as usize;
    }
    format!("nodes {} ok {}", paths.len(), okc)
}

fn run_ops<B: Backend>(doc: &Doc, ops: &[&str], out: &mut Out) -> Option<Vec<String>> {
    let mut st = State { real: B::from_doc(doc)?, reference: doc.clone() };
    // sanity: conversion round trip is the identity on the protocol domain
    if st.real.to_doc() != *doc {
        return None;
    }
    let mut res = vec![];
    let mut it = ops.iter();
    loop {
        let o = match it.next() {
            Some(o) => *o,
            None => break,
        };
        let r = match o {
            "R" | "M" => do_resolve(&mut st, o == "M", &unhex_str(it.next()?)?, out)?,
            "A" => {
                let ptr = unhex_str(it.next()?)?;
                let src = parse_doc(&mut it)?;
                do_assign(&mut st, &ptr, &src, out)?
            }
            "D" => do_delete(&mut st, &unhex_str(it.next()?)?, out)?,
            "W" => {
                let ptr = unhex_str(it.next()?)?;
                let src = parse_doc(&mut it)?;
                do_write(&mut st, &ptr, &src, out)?
            }
            "N" => do_nodes(&st, out),
            _ => return None,
        };
        res.push(r);
        match it.next() {
            None => break,
            Some(&";") => {}
            Some(_) => return None,
        }
    }
    Some(res)
}

fn in_common_domain(d: &Doc) -> bool {
    match d {
        Doc::Null => false,
        Doc::Arr(a) => a.iter().all(in_common_domain),
        Doc::Obj(m) => m.values().all(in_common_domain),
        _ => true,
    }
}

pub fn exec(op: &str, args: &[&str], out: &mut Out) -> Option<()> {
    if op != "tree" && op != "hist" {
        return None;
    }
    let be = *args.first()?;
    let mut it = args[1..].iter();
    let doc = parse_doc(&mut it)?;
    let ops: Vec<&str> = it.copied().collect();
    let res = match be {
        "json" => run_ops::<serde_json::Value>(&doc, &ops, out)?,
        "toml" => run_ops::<toml::Value>(&doc, &ops, out)?,
        _ => return None,
    };
    out.observed = res.join(" ; ");
    // C09: the other backend gives the same outcome on the common domain
    // (the single documented difference: what deleting the root leaves behind)
    let values_common = {
        let mut ok = in_common_domain(&doc);
        let mut j = ops.iter();
        while let Some(o) = j.next() {
            if *o == "A" || *o == "W" {
                j.next();
                if let Some(v) = parse_doc(&mut j) {
                    ok &= in_common_domain(&v);
                }
            }
        }
        ok
    };
    let deletes_root = ops.windows(2).any(|w| w[0] == "D" && w[1] == "x");
    if values_common && !deletes_root {
        let mut o2 = Out::new();
        let other = match be {
            "json" => run_ops::<toml::Value>(&doc, &ops, &mut o2),
            _ => run_ops::<serde_json::Value>(&doc, &ops, &mut o2),
        };
        if let Some(other) = other {
            let other = other.join(" ; ");
            let mine = out.observed.clone();
            out.check(other == mine, "C09", || {
                format!("backends disagree on [{}]: {be} gives [{mine}], the other backend gives [{other}]", args.join(" "))
            });
        }
    }
    Some(())
}

// ------------------------------------------------------------------ generators

const KEYS: [&str; 9] = ["", "a", "~", "/", "~1", "0", "-", "01", "é"];

fn scalars(common: bool) -> Vec<Doc> {
    let mut v = vec![Doc::Bool(true), Doc::Int(7), Doc::Str("s".into())];
    if !common {
        v.push(Doc::Null);
    }
    v
}

/// all documents with exactly `n` nodes over KEYS' (a subset of keys) and the given scalars
fn docs_with_nodes(n: usize, keys: &[&str], sc: &[Doc], memo: &mut BTreeMap<usize, Vec<Doc>>) -> Vec<Doc> {
    if let Some(v) = memo.get(&n) {
        return v.clone();
    }
    let mut res = vec![];
    if n == 1 {
        res.extend(sc.iter().cloned());
        res.push(Doc::Arr(vec![]));
        res.push(Doc::Obj(BTreeMap::new()));
    } else if n > 1 {
        // arrays: compositions of n-1 into child sizes
        for sizes in compositions(n - 1) {
            let mut partial: Vec<Vec<Doc>> = vec![vec![]];
            for s in &sizes {
                let kids = docs_with_nodes(*s, keys, sc, memo);
                let mut next = vec![];
                for p in &partial {
                    for k in &kids {
                        let mut q = p.clone();
                        q.push(k.clone());
                        next.push(q);
                    }
                }
                partial = next;
            }
            for p in &partial {
                res.push(Doc::Arr(p.clone()));
                // objects: the same children under increasing key choices
                for ks in key_choices(keys, p.len()) {
                    res.push(Doc::Obj(ks.iter().map(|k| k.to_string()).zip(p.iter().cloned()).collect()));
                }
            }
        }
    }
    memo.insert(n, res.clone());
    res
}

fn compositions(n: usize) -> Vec<Vec<usize>> {
    if n == 0 {
        return vec![vec![]];
    }
    let mut r = vec![];
    for first in 1..=n {
        for mut rest in compositions(n - first) {
            rest.insert(0, first);
            r.push(rest);
        }
    }
    r
}

fn key_choices<'a>(keys: &[&'a str], k: usize) -> Vec<Vec<&'a str>> {
    // increasing index sequences of length k (key order is irrelevant in a map)
    fn rec<'a>(keys: &[&'a str], start: usize, k: usize, cur: &mut Vec<&'a str>, out: &mut Vec<Vec<&'a str>>) {
        if k == 0 {
            out.push(cur.clone());
            return;
        }
        for i in start..keys.len() {
            cur.push(keys[i]);
            rec(keys, i + 1, k - 1, cur, out);
            cur.pop();
        }
    }
    let mut out = vec![];
    rec(keys, 0, k, &mut vec![], &mut out);
    out
}

/// pointers worth trying on a document: every node path plus single-token perturbations
fn pointers_for(d: &Doc) -> Vec<String> {
    let mut v = pointers_for_depth(d, true);
    // the fixed medium documents also get digit-led junk, Unicode numerics, and numeric tokens below an append position
    let mut set: std::collections::BTreeSet<String> = v.iter().cloned().collect();
    for path in all_paths(d) {
        let p = ptr_of_path(&path);
        if let Some(Doc::Arr(a)) = get_path(d, &path) {
            for t in ["1a", "1A", "1:", "3x", "2 ", "1e1", "\u{661}", "1\u{b2}", "07", "1_0", "0x1"] {
                set.insert(format!("{p}/{t}"));
            }
            let len = a.len();
            for app in ["-".to_string(), len.to_string()] {
                for below in ["1".to_string(), "2".to_string(), len.to_string(), (len + 1).to_string()] {
                    set.insert(format!("{p}/{app}/{below}"));
                    set.insert(format!("{p}/{app}/{below}/k"));
                }
            }
        }
    }
    // tokens that decode to a proper prefix / an extension of an existing member name
    for path in all_paths(d) {
        let p = ptr_of_path(&path);
        if let Some(Doc::Obj(m)) = get_path(d, &path) {
            for k in m.keys() {
                let mut cut = k.clone();
                if cut.pop().is_some() && !cut.is_empty() {
                    set.insert(format!("{p}/{}", rfc_escape(&cut)));
                    set.insert(format!("{p}/{}/x", rfc_escape(&cut)));
                }
                set.insert(format!("{p}/{}", rfc_escape(&format!("{k}c"))));
            }
        }
    }
    v = set.into_iter().collect();
    v
}

/// documents beyond the small scope with a handful of explicit pointers each (every operation, both backends)
fn huge_cases() -> Vec<(Doc, Vec<String>)> {
    let arr = |v: Vec<i64>| Doc::Arr(v.into_iter().map(Doc::Int).collect());
    let obj = |kv: Vec<(String, Doc)>| Doc::Obj(kv.into_iter().collect());
    let big_key = format!("{}x~1y", "k".repeat(70_001));
    let bk = rfc_escape(&big_key);
    let mut v = vec![];
    // a member name longer than u16::MAX bytes containing "~1" literally
    v.push((
        obj(vec![(big_key.clone(), arr(vec![1, 2])), ("k".to_string(), Doc::Int(1))]),
        vec![format!("/{bk}"), format!("/{bk}/1"), format!("/{bk}/2"), format!("/{}", &bk[..bk.len() - 1]), format!("/{bk}z")],
    ));
    // a long array: digit-led junk whose "value" would be in range, indices around the length
    v.push((
        obj(vec![("xs".to_string(), arr((0..700).collect()))]),
        ["1a", "1A", "1:", "3x", "2 ", "1e1", "\u{661}", "1\u{b2}", "699", "700", "701", "-", "0700", "07", "6 99", "77777777777777777777x", "18446744073709551616x", "99999999999999999999"].iter().map(|t| format!("/xs/{t}")).collect(),
    ));
    // nesting 70 deep
    let deep = (0..70).fold(Doc::Int(7), |d, k| if k % 2 == 0 { Doc::Obj([("n".to_string(), d)].into_iter().collect()) } else { Doc::Arr(vec![d]) });
    let mut dp = String::new();
    let mut ptrs = vec![];
    for k in (0..70).rev() {
        dp.push_str(if k % 2 == 1 { "/0" } else { "/n" });
        if k % 9 == 0 {
            ptrs.push(dp.clone());
            ptrs.push(format!("{dp}/q"));
        }
    }
    ptrs.push(dp.clone());
    v.push((deep, ptrs));
    // an array of 65 536 elements (a Vec collected from an exact-size iterator: no spare capacity) and appends below it
    v.push((
        obj(vec![("items".to_string(), arr((0..65_536).collect()))]),
        vec!["/items/-/id".to_string(), "/items/65536/id".to_string(), "/items/-".to_string(), "/items/65535".to_string(), "/items/65536".to_string(), "/items/65537/x".to_string()],
    ));
    // tails of EVERY length materialised below a missing member, an array end or a scalar (expand loops, inline buffers, small tables):
    // keys only, keys mixed with "0" / "-" tokens, escaped keys
    let tail = |l: usize, every: usize| -> String {
        (0..l)
            .map(|i| {
                if every > 0 && i % every == every - 1 {
                    if i % 2 == 0 { "/0".to_string() } else { "/-".to_string() }
                } else if i % 7 == 5 {
                    format!("/t~1{i}")
                } else {
                    format!("/t{i}")
                }
            })
            .collect()
    };
    let mut tails = vec![];
    for l in (1..=20).chain([31, 32, 33, 63, 64, 65]) {
        tails.push(tail(l, 0));
        tails.push(tail(l, 3));
        tails.push(format!("/a{}", tail(l, 0)));
        tails.push(format!("/a/-{}", tail(l, 2)));
        tails.push(format!("/n{}", tail(l, 4)));
    }
    v.push((obj(vec![("a".to_string(), arr(vec![])), ("n".to_string(), Doc::Int(5))]), tails.clone()));
    v.push((arr(vec![]), tails.iter().map(|t| format!("/-{t}")).chain(tails.iter().map(|t| format!("/0{t}"))).collect()));
    v.push((Doc::Int(5), tails));
    // a failing token longer than u16::MAX bytes (label spans)
    let long_tok = "k".repeat(70_000);
    v.push((obj(vec![("k".to_string(), Doc::Int(1))]), vec![format!("/{long_tok}"), format!("/k/{long_tok}"), format!("/{long_tok}/x")]));
    v.push((arr(vec![1, 2]), vec![format!("/{long_tok}"), format!("/0/{long_tok}")]));
    v
}

/// `rich = false`: a leaner perturbation set for the largest document size of the thorough tier
fn pointers_for_depth(d: &Doc, rich: bool) -> Vec<String> {
    let mut set = std::collections::BTreeSet::new();
    for path in all_paths(d) {
        let p = ptr_of_path(&path);
        set.insert(p.clone());
        let toks: Vec<String> = ref_tokens(&p).iter().map(|t| t.to_string()).collect();
        let node = get_path(d, &path).unwrap();
        let len = match node {
            Doc::Arr(a) => a.len(),
            _ => 0,
        };
        // append one token
        let lens = [len.to_string(), (len + 1).to_string()];
        let appended: Vec<&str> = if rich {
            vec!["-", "0", "00", "+1", "1", "a", "", "~01", "~0", "zz", &lens[0], &lens[1], "18446744073709551616", "é"]
        } else {
            vec!["-", "0", "01", "a", "~0", &lens[0]]
        };
        for t in appended {
            set.insert(format!("{p}/{t}"));
            // and one more below it (expansion paths, errors below a failure)
            let below: &[&str] = if rich { &["0", "-", "b", "", "1"] } else { &["-"] };
            for u in below {
                set.insert(format!("{p}/{t}/{u}"));
            }
        }
        // replace the last token
        if let Some((_, init)) = toks.split_last() {
            let base: String = init.iter().map(|t| format!("/{t}")).collect();
            let repl: &[&str] = if rich { &["-", "0", "01", "1", "~1", "~01", "", "x"] } else { &["-", "~1"] };
            for t in repl {
                set.insert(format!("{base}/{t}"));
            }
        }
    }
    set.into_iter().collect()
}

fn values(common: bool) -> Vec<Doc> {
    let mut v = vec![Doc::Int(9), Doc::Arr(vec![Doc::Int(1)]), Doc::Obj([("k".to_string(), Doc::Bool(false))].into_iter().collect())];
    if !common {
        v.push(Doc::Null);
    }
    v
}

pub fn gen(tier: &str, rng: &mut Rng, emit: &mut dyn FnMut(String)) {
    let maxn = if tier == "thorough" { 4 } else { 3 };
    for be in ["json", "toml"] {
        let common = be == "toml";
        let sc = scalars(common);
        let keys: Vec<&str> = if tier == "thorough" { KEYS.to_vec() } else { vec!["", "a", "~", "/", "~1", "0", "-", "01", "é"] };
        let mut memo = BTreeMap::new();
        for n in 1..=maxn {
            // the key alphabet is reduced for the largest size to keep the count in the 10^5 range
            let ks: Vec<&str> = if n == maxn && n >= 3 { vec!["", "a", "~1", "0", "-"] } else { keys.clone() };
            if n == maxn {
                memo.clear();
            }
            let lean = tier == "thorough" && n == maxn;
            for d in docs_with_nodes(n, &ks, &sc, &mut memo) {
                let ds = doc_str(&d);
                emit(format!("tree {be} {ds} N"));
                for p in pointers_for_depth(&d, !lean) {
                    let x = hex(p.as_bytes());
                    emit(format!("tree {be} {ds} R {x}"));
                    emit(format!("tree {be} {ds} D {x}"));
                    if lean {
                        emit(format!("tree {be} {ds} A {x} {}", doc_str(&values(common)[1])));
                        continue;
                    }
                    emit(format!("tree {be} {ds} M {x}"));
                    for v in values(common) {
                        emit(format!("tree {be} {ds} A {x} {}", doc_str(&v)));
                    }
                    emit(format!("tree {be} {ds} W {x} {}", doc_str(&values(common)[1])));
                }
            }
        }
    }
    // a few fixed medium documents (longer arrays, deeper nesting, look-alike keys) with every pointer and every operation
    for be in ["json", "toml"] {
        let common = be == "toml";
        let arr = |v: Vec<i64>| Doc::Arr(v.into_iter().map(Doc::Int).collect());
        let obj = |kv: Vec<(&str, Doc)>| Doc::Obj(kv.into_iter().map(|(k, v)| (k.to_string(), v)).collect());
        let docs = vec![
            arr(vec![1, 2, 3]),
            arr(vec![1, 2, 3, 4, 5]),
            obj(vec![("a", arr(vec![1, 2, 3, 4])), ("b", Doc::Arr(vec![]))]),
            obj(vec![("a/b", Doc::Int(1)), ("a~1b", Doc::Int(2)), ("~0", Doc::Int(3)), ("~", Doc::Int(4)), ("~01", Doc::Int(5)), ("~1", Doc::Int(6)), ("/", Doc::Int(7))]),
            obj(vec![("a~1b", obj(vec![("x", Doc::Bool(true))])), ("~0", obj(vec![("x", Doc::Bool(false))]))]),
            Doc::Arr(vec![arr(vec![1, 2, 3]), obj(vec![("k", arr(vec![7, 8, 9]))]), Doc::Str("s".into())]),
            obj(vec![("list", Doc::Arr(vec![obj(vec![("id", Doc::Int(1))]), obj(vec![("id", Doc::Int(2))]), obj(vec![("id", Doc::Int(3))])]))]),
            obj(vec![("0", arr(vec![1])), ("-", arr(vec![2])), ("00", Doc::Int(3)), ("01", obj(vec![])), ("+1", Doc::Int(4))]),
            // beyond the small scope: two-digit and three-digit indices, a deep spine, keys that are prefixes of each other,
            // keys with every kind of awkward byte
            arr((0..12).collect()),
            obj(vec![("rows", arr((0..101).collect()))]),
            (0..33).fold(Doc::Int(7), |d, k| if k % 2 == 0 { Doc::Obj([(format!("k{}", k % 5), d)].into_iter().collect()) } else { Doc::Arr(vec![Doc::Bool(true), d]) }),
            obj(vec![("a", Doc::Int(1)), ("ab", Doc::Int(2)), ("abc", obj(vec![("a", Doc::Int(3)), ("ab", Doc::Int(4))])), ("a/", Doc::Int(5)), ("a~", Doc::Int(6))]),
            obj(vec![(".", Doc::Int(1)), ("..", Doc::Int(2)), (" ", Doc::Int(3)), ("\u{0}", Doc::Int(4)), ("\"", Doc::Int(5)), ("\\", Doc::Int(6)), ("\u{7f}", Doc::Int(7)),
                     ("€", Doc::Int(8)), ("𝄞", arr(vec![1, 2])), ("%7E", Doc::Int(9)), ("#", Doc::Int(10))]),
            obj(vec![(&"k".repeat(300), arr(vec![1, 2])), (&"k".repeat(299), Doc::Int(1))]),
            // a key that extends another key's decoded token (prefix relations after decoding)
            obj(vec![("a/bc", obj(vec![("x", Doc::Int(1))])), ("a~bc", obj(vec![("x", Doc::Int(2))])), ("a", Doc::Int(3))]),
        ];
        for d in docs {
            let ds = doc_str(&d);
            emit(format!("tree {be} {ds} N"));
            for p in pointers_for(&d) {
                let x = hex(p.as_bytes());
                for o in ["R", "M", "D"] {
                    emit(format!("tree {be} {ds} {o} {x}"));
                }
                emit(format!("tree {be} {ds} A {x} {}", doc_str(&values(common)[0])));
                emit(format!("tree {be} {ds} A {x} {}", doc_str(&values(common)[2])));
                emit(format!("tree {be} {ds} W {x} {}", doc_str(&values(common)[1])));
            }
        }
    }
    for be in ["json", "toml"] {
        let common = be == "toml";
        for (d, ptrs) in huge_cases() {
            let ds = doc_str(&d);
            for p in ptrs {
                let x = hex(p.as_bytes());
                for o in ["R", "M", "D"] {
                    emit(format!("tree {be} {ds} {o} {x}"));
                }
                emit(format!("tree {be} {ds} A {x} {}", doc_str(&values(common)[0])));
                emit(format!("tree {be} {ds} W {x} {}", doc_str(&values(common)[0])));
            }
        }
    }
    // random documents and pointers
    let n = if tier == "thorough" { 100_000 } else { 6_000 };
    for i in 0..n {
        let be = if i % 2 == 0 { "json" } else { "toml" };
        let d = if i % 20 == 7 { big_doc(rng, be == "toml") } else { random_doc(rng, 0, be == "toml") };
        let ds = doc_str(&d);
        let p = random_pointer(rng, &d);
        let x = hex(p.as_bytes());
        let v = random_doc(rng, 4, be == "toml");
        match rng.below(6) {
            0 => emit(format!("tree {be} {ds} R {x}")),
            1 => emit(format!("tree {be} {ds} M {x}")),
            2 => emit(format!("tree {be} {ds} D {x}")),
            3 => emit(format!("tree {be} {ds} W {x} {}", doc_str(&v))),
            4 => emit(format!("tree {be} {ds} N")),
            _ => emit(format!("tree {be} {ds} A {x} {}", doc_str(&v))),
        }
    }
}

/// documents beyond the small scope: arrays of tens to hundreds of elements, nesting 10-20 deep, long keys
pub fn big_doc(rng: &mut Rng, common: bool) -> Doc {
    match rng.below(4) {
        0 => Doc::Arr((0..(17 + rng.below(300))).map(|i| if rng.chance(1, 10) { random_doc(rng, 4, common) } else { Doc::Int(i as i64) }).collect()),
        1 => {
            // a deep spine alternating arrays and objects, with a wide array somewhere on it
            let depth = 9 + rng.below(12);
            let mut d = Doc::Arr((0..(rng.below(40))).map(|i| Doc::Int(i as i64)).collect());
            for k in 0..depth {
                d = if k % 2 == 0 {
                    let kl = if rng.chance(1, 5) { 400 } else { 3 };
                    Doc::Obj([(super::token::random_text(rng, kl), d), ("z".to_string(), Doc::Bool(true))].into_iter().collect())
                } else {
                    let mut v: Vec<Doc> = (0..rng.below(20)).map(|i| Doc::Int(i as i64)).collect();
                    let at = rng.below(v.len() + 1);
                    v.insert(at, d);
                    Doc::Arr(v)
                };
            }
            d
        }
        2 => Doc::Obj((0..(20 + rng.below(200))).map(|i| (format!("{}{}", super::token::random_text(rng, 2), i), if rng.chance(1, 8) { random_doc(rng, 4, common) } else { Doc::Int(i as i64) })).collect()),
        _ => Doc::Obj([("list".to_string(), Doc::Arr((0..(10 + rng.below(120))).map(|i| Doc::Obj([("id".to_string(), Doc::Int(i as i64))].into_iter().collect())).collect()))].into_iter().collect()),
    }
}

pub fn random_doc(rng: &mut Rng, depth: usize, common: bool) -> Doc {
    let leaf = depth >= 5 || rng.chance(2 + depth as u64, 8);
    if leaf {
        return match rng.below(if common { 5 } else { 6 }) {
            0 => Doc::Bool(rng.chance(1, 2)),
            1 => Doc::Int(rng.below(100) as i64 - 50),
            2 => Doc::Str(super::token::random_text(rng, 3)),
            3 => Doc::Other(rng.below(5) as u64),
            4 => Doc::Arr(vec![]),
            _ => Doc::Null,
        };
    }
    let k = rng.below(5);
    if rng.chance(1, 2) {
        Doc::Arr((0..k).map(|_| random_doc(rng, depth + 1, common)).collect())
    } else {
        Doc::Obj(
            (0..k)
                .map(|_| {
                    let key = if rng.chance(2, 3) { rng.pick(&KEYS[..]).to_string() } else { super::token::random_text(rng, 3) };
                    (key, random_doc(rng, depth + 1, common))
                })
                .collect(),
        )
    }
}

/// a pointer that mostly follows the document's shape, sometimes perturbed
pub fn random_pointer(rng: &mut Rng, d: &Doc) -> String {
    let mut cur = d;
    let mut toks: Vec<String> = vec![];
    loop {
        if rng.chance(1, 6) {
            break;
        }
        match cur {
            Doc::Arr(a) => {
                if a.is_empty() || rng.chance(1, 5) {
                    toks.push(rng.pick(&["-", "0", "00", "+1", "a", "", &a.len().to_string(), &(a.len() + 1).to_string(),
                        "\u{661}", "1\u{b2}", "1a", "1:", "07", "1e1", "77777777777777777777x", "18446744073709551616"][..]).to_string());
                    break;
                }
                let i = rng.below(a.len());
                toks.push(i.to_string());
                cur = &a[i];
            }
            Doc::Obj(m) => {
                if m.is_empty() || rng.chance(1, 5) {
                    toks.push(rfc_escape(*rng.pick(&KEYS[..])));
                    break;
                }
                let (k, c) = m.iter().nth(rng.below(m.len())).unwrap();
                toks.push(rfc_escape(k));
                cur = c;
            }
            _ => {
                if rng.chance(1, 2) {
                    toks.push(rng.pick(&["0", "-", "a", "", "~0"][..]).to_string());
                }
                break;
            }
        }
    }
    while rng.chance(1, 4) {
        toks.push(rng.pick(&["0", "-", "a", "", "~1", "1", "é"][..]).to_string());
    }
    toks.iter().map(|t| format!("/{t}")).collect()
}

// ------------------------------------------------------------------ suite hist

fn hist_alphabet(common: bool) -> Vec<String> {
    let mut ops = vec![];
    let ptrs = ["", "/a", "/a/0", "/a/-", "/a/1", "/a/b", "/0", "/-", "/~1", "/a/0/c"];
    for p in ptrs {
        let x = hex(p.as_bytes());
        ops.push(format!("D {x}"));
        ops.push(format!("R {x}"));
        for v in [Doc::Int(1), Doc::Arr(vec![]), Doc::Obj(BTreeMap::new())] {
            ops.push(format!("A {x} {}", doc_str(&v)));
        }
    }
    for p in ["/a", "/a/0", "/0"] {
        ops.push(format!("W {} {}", hex(p.as_bytes()), doc_str(&Doc::Str("w".into()))));
    }
    // index-shaped junk on an array member: Unicode numerics, digit-led junk, a leading zero
    for p in ["/a/\u{661}", "/a/1\u{b2}", "/a/1a", "/a/01"] {
        let x = hex(p.as_bytes());
        ops.push(format!("R {x}"));
        ops.push(format!("A {x} {}", doc_str(&Doc::Int(1))));
    }
    if !common {
        ops.push(format!("A {} n", hex(b"/a")));
    }
    ops
}

pub fn gen_hist(tier: &str, rng: &mut Rng, emit: &mut dyn FnMut(String)) {
    let max = if tier == "thorough" { 3 } else { 2 };
    for be in ["json", "toml"] {
        let common = be == "toml";
        let ops = hist_alphabet(common);
        let ops_ref: Vec<&str> = ops.iter().map(String::as_str).collect();
        let starts: Vec<Doc> = vec![
            Doc::Obj(BTreeMap::new()),
            Doc::Arr(vec![]),
            Doc::Int(3),
            Doc::Obj([("a".to_string(), Doc::Arr(vec![Doc::Int(1), Doc::Int(2)]))].into_iter().collect()),
            Doc::Arr(vec![Doc::Obj(BTreeMap::new()), Doc::Str("x".into())]),
            Doc::Obj([("a".to_string(), Doc::Obj([("b".to_string(), Doc::Bool(true))].into_iter().collect())), ("/".to_string(), Doc::Int(0))].into_iter().collect()),
        ];
        for s in &starts {
            let ds = doc_str(s);
            super::tokens::all_lists(&ops_ref, max, &mut |h| {
                if !h.is_empty() {
                    emit(format!("hist {be} {ds} {} ; N", h.join(" ; ")));
                }
            });
        }
    }
    let n = if tier == "thorough" { 200_000 } else { 10_000 };
    for i in 0..n {
        let be = if i % 2 == 0 { "json" } else { "toml" };
        let common = be == "toml";
        let mut shadow = if i % 25 == 3 { big_doc(rng, common) } else { random_doc(rng, 2, common) };
        let ds = doc_str(&shadow);
        let k = if i % 25 == 3 || i % 40 == 0 { 20 + rng.below(60) } else { 1 + rng.below(16) };
        let mut h: Vec<String> = vec![];
        for _ in 0..k {
            let p = random_pointer(rng, &shadow);
            let x = hex(p.as_bytes());
            let toks = ref_tokens(&p);
            match rng.below(8) {
                0 | 1 | 2 => {
                    let v = random_doc(rng, 4, common);
                    let _ = ref_assign(&mut shadow, &toks, v.clone());
                    h.push(format!("A {x} {}", doc_str(&v)));
                }
                3 | 4 => {
                    let _ = ref_delete(&mut shadow, &toks, if common { Doc::Obj(BTreeMap::new()) } else { Doc::Null });
                    h.push(format!("D {x}"));
                }
                5 => h.push(format!("R {x}")),
                6 => {
                    let v = random_doc(rng, 4, common);
                    if let Ok(path) = ref_resolve(&shadow, &toks) {
                        *get_path_mut(&mut shadow, &path).unwrap() = v.clone();
                    }
                    h.push(format!("W {x} {}", doc_str(&v)));
                }
                _ => h.push("N".into()),
            }
        }
        h.push("N".into());
        emit(format!("hist {be} {ds} {}", h.join(" ; ")));
    }
}
