//! suite `tokens`: from_tokens / tokens / accessors / components  (C04, C01)
use crate::oracles::*;
use crate::util::*;
use jsonptr::{Component, Pointer, PointerBuf, Token};

pub fn exec(op: &str, args: &[&str], out: &mut Out) -> Option<()> {
    match op {
        "ftok" => {
            let l: Vec<String> = args.iter().map(|f| unhex_str(f)).collect::<Option<_>>()?;
            let p = PointerBuf::from_tokens(l.iter().map(String::as_str));
            let text = p.as_str().to_string();
            out.observed = hex(text.as_bytes());
            let dec: Vec<String> = p.tokens().map(|t| t.decoded().to_string()).collect();
            out.check(dec == l, "C04", || format!("from_tokens({l:?}).tokens() decoded = {dec:?}"));
            out.check(p.count() == l.len(), "C04", || format!("from_tokens({l:?}).count() = {}", p.count()));
            let expect: String = l.iter().map(|t| format!("/{}", rfc_escape(t))).collect();
            out.check(text == expect, "C04", || format!("from_tokens({l:?}) text {text:?}, expected {expect:?}"));
            out.check(rfc_ptr(text.as_bytes()), "C01", || format!("from_tokens({l:?}) holds invalid text {text:?}"));
            match Pointer::parse(&text) {
                Ok(q) => out.check(q == &*p, "C01", || "re-parsed from_tokens result differs".into()),
                Err(e) => out.fail("C01", format!("re-parsing from_tokens({l:?}) = {text:?} fails: {e:?}")),
            }
            if l.len() == 1 {
                let q: PointerBuf = Token::new(l[0].as_str()).into();
                out.check(q == p, "C04", || format!("From<Token> for PointerBuf differs from from_tokens on {l:?}"));
            }
            out.check(p.first().map(|t| t.decoded().to_string()) == l.first().cloned(), "C04", || "first() disagrees with the list".into());
            out.check(p.last().map(|t| t.decoded().to_string()) == l.last().cloned(), "C04", || "last() disagrees with the list".into());
        }
        "acc" => {
            let s = unhex_str(args.first()?)?;
            let p = Pointer::parse(&s).ok()?;
            let base = p.as_str();
            let toks: Vec<Token> = p.tokens().collect();
            let mut o = vec![
                format!("n{}", p.count()),
                format!("r{}", p.is_root() as u8),
                format!("f{}", opt(p.front(), |t| view(base, borrowed(&t, out)))),
                format!("b{}", opt(p.back(), |t| view(base, borrowed(&t, out)))),
                format!("sf{}", opt(p.split_front(), |(t, r)| format!("{},{}", view(base, borrowed(&t, out)), view(base, r.as_str())))),
                format!("sb{}", opt(p.split_back(), |(f, t)| format!("{},{}", view(base, f.as_str()), view(base, borrowed(&t, out))))),
                format!("pa{}", opt(p.parent(), |f| view(base, f.as_str()))),
                "t".to_string(),
            ];
            for t in &toks {
                o.push(format!("{}:{}", hex(t.encoded().as_bytes()), hex(t.decoded().as_bytes())));
            }
            out.observed = o.join(" ");
            // C04 oracles against the reference tokenisation
            let rt = ref_tokens(&s);
            let enc: Vec<&str> = toks.iter().map(|t| t.encoded()).collect();
            out.check(enc == rt, "C04", || format!("tokens({s:?}) = {enc:?}, expected {rt:?}"));
            out.check(p.count() == rt.len() && p.len() == s.len() && p.is_empty() == s.is_empty() && p.is_root() == rt.is_empty(), "C04", || {
                format!("count/len/is_empty/is_root of {s:?} disagree with its token list")
            });
            out.check(p.first().map(|t| t.encoded().to_string()) == rt.first().map(|t| t.to_string()) && p.front() == p.first(), "C04", || format!("first/front of {s:?}"));
            out.check(p.last().map(|t| t.encoded().to_string()) == rt.last().map(|t| t.to_string()) && p.back() == p.last(), "C04", || format!("last/back of {s:?}"));
            // get(i) for every i (for pointers with thousands of tokens: the ends, and indices around every power of two)
            let n = rt.len();
            let idxs: Vec<usize> = if n <= 3000 {
                (0..=n).collect()
            } else {
                let mut v: Vec<usize> = (0..40).chain(n - 40..=n).collect();
                for k in 5..usize::BITS {
                    let b = 1usize << k;
                    if b <= n + 1 {
                        v.extend([b - 1, b, b + 1].into_iter().filter(|i| *i <= n));
                    }
                }
                v
            };
            for i in idxs {
                out.check(p.get(i).map(|t| t.encoded().to_string()) == rt.get(i).map(|t| t.to_string()), "C04,C12", || format!("get({i}) of {s:?}"));
            }
            let comps: Vec<Component> = p.components().collect();
            let ok = comps.len() == rt.len() + 1
                && comps[0] == Component::Root
                && comps[1..].iter().zip(&rt).all(|(c, t)| matches!(c, Component::Token(x) if x.encoded() == *t));
            out.check(ok, "C04", || format!("components({s:?}) is not Root followed by the tokens"));
            // iterator adaptors on a PARTIALLY consumed iterator: after k calls of next() the rest behaves like the rest of the list
            if n <= 12 {
                for k in 0..=n + 2 {
                    let mut ti = p.tokens();
                    let mut ci = p.components();
                    for _ in 0..k {
                        ti.next();
                        ci.next();
                    }
                    let trest: Vec<&str> = rt.iter().skip(k).copied().collect();
                    let crest = (n + 1).saturating_sub(k);
                    let (mut t2, mut t3, mut c2, mut c3) = (p.tokens(), p.tokens(), p.components(), p.components());
                    for _ in 0..k {
                        t2.next();
                        t3.next();
                        c2.next();
                        c3.next();
                    }
                    let (tlo, thi) = ti.size_hint();
                    let (clo, chi) = ci.size_hint();
                    let ok = t2.count() == trest.len()
                        && t3.last().map(|t| t.encoded().to_string()) == trest.last().map(|t| t.to_string())
                        && tlo <= trest.len()
                        && thi.map_or(true, |h| h >= trest.len())
                        && c2.count() == crest
                        && clo <= crest
                        && chi.map_or(true, |h| h >= crest)
                        && match c3.last() {
                            None => crest == 0,
                            Some(Component::Root) => crest == 1 && k == 0,
                            Some(Component::Token(t)) => crest >= 1 && Some(t.encoded()) == rt.last().copied(),
                        }
                        && ti.next().map(|t| t.encoded().to_string()) == trest.first().map(|t| t.to_string())
                        && ti.nth(1).map(|t| t.encoded().to_string()) == trest.get(2).map(|t| t.to_string());
                    out.check(ok, "C04", || format!("count / last / size_hint / nth of tokens() or components() of {s:?} after {k} calls of next()"));
                }
            }
            let it: Vec<String> = (&*p).into_iter().map(|t| t.encoded().to_string()).collect();
            out.check(it == rt, "C04", || format!("IntoIterator of {s:?}"));
            let back = PointerBuf::from_tokens(p.tokens());
            out.check(back.as_str() == s, "C04", || format!("from_tokens(tokens({s:?})) = {:?}", back.as_str()));
            // the remaining conversions: IntoIterator for &PointerBuf, From<Token> for Component, From<&Token> for Token, root()
            let it2: Vec<String> = (&back).into_iter().map(|t| t.encoded().to_string()).collect();
            out.check(it2 == rt, "C04", || format!("IntoIterator for &PointerBuf of {s:?}"));
            for t in &toks {
                out.check(Component::from(t.clone()) == Component::Token(t.clone()) && &Token::from(t) == t, "C04,C18", || format!("From<Token> for Component / From<&Token> for Token on {:?}", t.encoded()));
            }
            out.check(PointerBuf::root().as_str().is_empty() && PointerBuf::root() == PointerBuf::new() && Pointer::root().is_root(), "C04,C01", || "root() is not the empty pointer".to_string());
            for t in &toks {
                out.check(rfc_tok(t.encoded().as_bytes()), "C01", || format!("tokens({s:?}) yields invalid token {:?}", t.encoded()));
                out.check(t.decoded() == rfc_unescape(t.encoded()), "C04,C03", || format!("decoded of token {:?}", t.encoded()));
            }
            // split pieces re-concatenate (C12) and are valid (C01)
            if let Some((t, r)) = p.split_front() {
                out.check(format!("/{}{}", t.encoded(), r.as_str()) == s, "C12", || format!("split_front pieces of {s:?} do not re-concatenate"));
                out.check(rfc_ptr(r.as_str().as_bytes()) && rfc_tok(t.encoded().as_bytes()), "C01", || format!("split_front({s:?}) yields invalid text"));
            } else {
                out.check(s.is_empty(), "C12", || format!("split_front({s:?}) is None"));
            }
            if let Some((f, t)) = p.split_back() {
                out.check(format!("{}/{}", f.as_str(), t.encoded()) == s, "C12", || format!("split_back pieces of {s:?} do not re-concatenate"));
                out.check(rfc_ptr(f.as_str().as_bytes()) && rfc_tok(t.encoded().as_bytes()), "C01", || format!("split_back({s:?}) yields invalid text"));
                out.check(p.parent().map(|x| x.as_str()) == Some(f.as_str()), "C12", || format!("parent({s:?}) differs from split_back"));
            } else {
                out.check(s.is_empty() && p.parent().is_none(), "C12", || format!("split_back({s:?}) is None"));
            }
        }
        "fus" => {
            // From<usize> for PointerBuf: the singleton list holding the decimal spelling
            let n: usize = args.first()?.parse().ok()?;
            let p = PointerBuf::from(n);
            out.observed = hex(p.as_str().as_bytes());
            let want = format!("/{n}");
            out.check(p.as_str() == want, "C04,C18", || format!("PointerBuf::from({n}usize) = {:?}, expected {want:?}", p.as_str()));
            let toks: Vec<String> = p.tokens().map(|t| t.decoded().to_string()).collect();
            out.check(toks == vec![n.to_string()], "C04", || format!("PointerBuf::from({n}usize).tokens() = {toks:?}"));
            out.check(p == PointerBuf::from_tokens([n.to_string()]) && p == PointerBuf::from(Token::from(n)), "C04", || {
                format!("PointerBuf::from({n}usize) differs from from_tokens([n.to_string()]) / From<Token>")
            });
            out.check(rfc_ptr(p.as_str().as_bytes()), "C01", || format!("PointerBuf::from({n}usize) holds invalid text"));
        }
        "wtt" | "wlt" => {
            let s = unhex_str(args.first()?)?;
            let t = unhex_str(args.get(1)?)?;
            let p = Pointer::parse(&s).ok()?;
            let r = if op == "wtt" { p.with_trailing_token(t.as_str()) } else { p.with_leading_token(t.as_str()) };
            out.observed = hex(r.as_str().as_bytes());
            let mut l: Vec<String> = ref_tokens(&s).iter().map(|e| rfc_unescape(e)).collect();
            if op == "wtt" { l.push(t.clone()) } else { l.insert(0, t.clone()) }
            let dec: Vec<String> = r.tokens().map(|t| t.decoded().to_string()).collect();
            out.check(dec == l, "C04", || format!("{op}({s:?}, {t:?}) tokens = {dec:?}, expected {l:?}"));
            out.check(rfc_ptr(r.as_str().as_bytes()), "C01", || format!("{op}({s:?}, {t:?}) holds invalid text {:?}", r.as_str()));
        }
        _ => return None,
    }
    Some(())
}

/// a token handed out by a borrowing accessor must borrow (its text lies inside the subject)
fn borrowed<'a>(t: &'a Token<'_>, _out: &mut Out) -> &'a str {
    t.encoded()
}

pub const T: [&str; 10] = ["", "a", "~", "/", "~0", "~1", "01", "-", "é", "a/b"];

pub fn all_lists(alphabet: &[&str], max_len: usize, f: &mut dyn FnMut(&[&str])) {
    fn rec<'a>(alphabet: &[&'a str], max_len: usize, cur: &mut Vec<&'a str>, f: &mut dyn FnMut(&[&str])) {
        f(cur);
        if cur.len() == max_len {
            return;
        }
        for a in alphabet {
            cur.push(a);
            rec(alphabet, max_len, cur, f);
            cur.pop();
        }
    }
    rec(alphabet, max_len, &mut vec![], f);
}

pub fn gen(tier: &str, rng: &mut Rng, emit: &mut dyn FnMut(String)) {
    let max = if tier == "thorough" { 5 } else { 4 };
    all_lists(&T, max, &mut |l| {
        let fields: Vec<String> = l.iter().map(|t| hex(t.as_bytes())).collect();
        emit(format!("ftok {}", fields.join(" ")).trim_end().to_string());
        // accessors on the pointer spelled from the same list, taking each entry as *encoded* text where valid
        let enc: Vec<String> = l.iter().map(|t| if rfc_tok(t.as_bytes()) { t.to_string() } else { rfc_escape(t) }).collect();
        let p: String = enc.iter().map(|t| format!("/{t}")).collect();
        emit(format!("acc {}", hex(p.as_bytes())));
        if l.len() <= 2 {
            for t in T {
                emit(format!("wtt {} {}", hex(p.as_bytes()), hex(t.as_bytes())));
                emit(format!("wlt {} {}", hex(p.as_bytes()), hex(t.as_bytes())));
            }
        }
    });
    // texts beyond the small scope, as single tokens and between neighbours; pointers with many tokens
    for s in boundary_texts(tier) {
        let e = rfc_escape(&s);
        emit(format!("ftok {}", hex(s.as_bytes())));
        emit(format!("ftok {} {} {}", hex(b"a"), hex(s.as_bytes()), hex(b"")));
        emit(format!("acc {}", hex(format!("/{e}").as_bytes())));
        emit(format!("acc {}", hex(format!("/x/{e}/y").as_bytes())));
        emit(format!("acc {}", hex(format!("/{e}/{e}").as_bytes())));
    }
    for l in sweep_lengths(tier) {
        if l % 2 == 0 {
            let a = "a".repeat(l);
            emit(format!("acc {}", hex(format!("/{a}/k").as_bytes())));
            emit(format!("ftok {} {}", hex(a.as_bytes()), hex(b"k")));
        }
    }
    for n in SCALE_64K {
        if n == 65_537 {
            // (the accessor case walks get(i) for every i: one pointer of that many tokens is enough)
            let p: String = (0..n).map(|_| "/a").collect();
            emit(format!("acc {}", hex(p.as_bytes())));
        }
        emit(format!("acc {}", hex(format!("/{}~1/k", "a".repeat(n)).as_bytes())));
        emit(format!("ftok {}", hex(format!("~{}/", "a".repeat(n)).as_bytes())));
    }
    for n in MANY {
        for tok in ["a", "", "~0", "ab"] {
            let p: String = (0..n).map(|_| format!("/{tok}")).collect();
            emit(format!("acc {}", hex(p.as_bytes())));
            let fields: Vec<String> = (0..n).map(|_| hex(tok.as_bytes())).collect();
            emit(format!("ftok {}", fields.join(" ")));
        }
    }
    // From<usize>: every power of ten and its neighbours, the extremes, random values of every width
    let mut pw: u128 = 1;
    while pw <= usize::MAX as u128 {
        for v in [pw - 1, pw, pw + 1] {
            if v <= usize::MAX as u128 {
                emit(format!("fus {v}"));
            }
        }
        pw *= 10;
    }
    for v in [usize::MAX, usize::MAX - 1, usize::MAX / 2, usize::MAX / 10] {
        emit(format!("fus {v}"));
    }
    for _ in 0..200 {
        emit(format!("fus {}", rng.next() as usize >> rng.below(64)));
    }
    let n = if tier == "thorough" { 20_000 } else { 1_000 };
    for i in 0..n {
        let k = if i % 100 == 0 { 2000 } else { rng.below(12) };
        let tl = if i % 37 == 0 { 5000 } else if i % 11 == 0 { 300 } else { 6 };
        let l: Vec<String> = (0..k).map(|_| super::token::random_text(rng, tl.min(if k > 100 { 40 } else { tl }))).collect();
        let fields: Vec<String> = l.iter().map(|t| hex(t.as_bytes())).collect();
        emit(format!("ftok {}", fields.join(" ")).trim_end().to_string());
        let p: String = l.iter().map(|t| format!("/{}", rfc_escape(t))).collect();
        emit(format!("acc {}", hex(p.as_bytes())));
    }
}
