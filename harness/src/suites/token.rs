//! suite `token`: Token::new / Token::from_encoded / encoded / decoded   (C03, C01)
use crate::oracles::*;
use crate::util::*;
use jsonptr::{InvalidEncoding, Token};

pub fn exec(op: &str, args: &[&str], out: &mut Out) -> Option<()> {
    match op {
        "tnew" => {
            let s = unhex_str(args.first()?)?;
            let t = Token::new(s.as_str());
            let enc = t.encoded().to_string();
            let dec = t.decoded().to_string();
            out.observed = format!("{} {}", hex(enc.as_bytes()), hex(dec.as_bytes()));
            // oracles
            out.check(dec == s, "C03", || format!("decoded(new(s)) = {dec:?} != s = {s:?}"));
            out.check(enc == rfc_escape(&s), "C03", || {
                format!("encoded(new({s:?})) = {enc:?}, expected {:?}", rfc_escape(&s))
            });
            out.check(rfc_tok(enc.as_bytes()), "C01,C03", || {
                format!("Token::new({s:?}) holds invalid encoded text {enc:?}")
            });
            match Token::from_encoded(&enc) {
                Ok(t2) => out.check(t2 == t && t2.encoded() == enc, "C01", || {
                    format!("re-parsing {enc:?} gives a different token")
                }),
                Err(e) => out.fail("C01,C03", format!("re-parsing encoded {enc:?} of new({s:?}) fails: {e:?}")),
            }
            // From<&str>, From<String>, From<&String> are the same constructor
            let owned = String::from(s.as_str());
            out.check(
                Token::from(s.as_str()) == t && Token::from(&owned) == t && Token::from(owned.clone()) == t,
                "C03",
                || format!("Token::from forms disagree with Token::new on {s:?}"),
            );
            let o1 = t.to_owned();
            out.check(o1.encoded() == enc && t.clone().into_owned().encoded() == enc, "C18,C01", || {
                format!("to_owned/into_owned changed the text of {enc:?}")
            });
        }
        "tenc" => {
            let s = unhex_str(args.first()?)?;
            let r = Token::from_encoded(&s);
            let valid = rfc_tok(s.as_bytes());
            match &r {
                Ok(t) => {
                    let enc = t.encoded().to_string();
                    let dec = t.decoded().to_string();
                    out.observed = format!("ok {} {}", hex(enc.as_bytes()), hex(dec.as_bytes()));
                    out.check(valid, "C03,C01", || format!("from_encoded accepted invalid token text {s:?}"));
                    out.check(enc == s, "C03", || format!("from_encoded({s:?}) changed the text to {enc:?}"));
                    if valid {
                        out.check(dec == rfc_unescape(&s), "C03", || {
                            format!("decoded({s:?}) = {dec:?}, expected {:?}", rfc_unescape(&s))
                        });
                        let re = Token::new(dec.as_str());
                        out.check(re.encoded() == s, "C03", || {
                            format!("re-encoding decoded {dec:?} of {s:?} gives {:?}", re.encoded())
                        });
                    }
                }
                Err(e) => {
                    let kind = match e.source {
                        InvalidEncoding::Tilde => "tilde",
                        InvalidEncoding::Slash => "slash",
                    };
                    out.observed = format!("err {} {}", e.offset, kind);
                    out.check(!valid, "C03", || format!("from_encoded rejected valid token text {s:?}: {e:?}"));
                    let b = s.as_bytes();
                    let off = e.offset;
                    if off > b.len() {
                        out.fail("C03", format!("from_encoded({s:?}) offset {off} beyond the text"));
                    } else {
                        out.check(tok_prefix_ok(&b[..off.saturating_sub(if kind == "tilde" { 1 } else { 0 })]) , "C03", || {
                            format!("from_encoded({s:?}) reports offset {off} but something earlier is invalid")
                        });
                        match e.source {
                            InvalidEncoding::Slash => out.check(b.get(off) == Some(&b'/'), "C03", || {
                                format!("from_encoded({s:?}) reports a slash at {off} but there is none")
                            }),
                            InvalidEncoding::Tilde => out.check(
                                off >= 1 && b[off - 1] == b'~' && !matches!(b.get(off), Some(b'0') | Some(b'1')),
                                "C03",
                                || format!("from_encoded({s:?}) reports a bad tilde before {off} but there is none"),
                            ),
                        }
                    }
                    let _ = no_panic(|| format!("{e} {e:?} {}", e.source)).or_else(|| {
                        out.fail("C03", format!("formatting the error of {s:?} panicked"));
                        None
                    });
                }
            }
        }
        _ => return None,
    }
    Some(())
}

const SIGMA: [&str; 7] = ["~", "/", "0", "1", "-", "a", "é"];
const SIGMA_PLUS: [&str; 14] = ["~", "/", "0", "1", "-", "a", "é", "2", "9", "+", " ", "١", "€", "𝄞"];

pub fn gen(tier: &str, rng: &mut Rng, emit: &mut dyn FnMut(String)) {
    let max = if tier == "thorough" { 7 } else { 6 };
    all_strings(&SIGMA, max, |s| {
        emit(format!("tnew {}", hex(s.as_bytes())));
        emit(format!("tenc {}", hex(s.as_bytes())));
    });
    // every length: plain, escape at the start, special byte at the end
    for l in sweep_lengths(tier) {
        let a = "a".repeat(l);
        emit(format!("tnew {}", hex(a.as_bytes())));
        emit(format!("tenc {}", hex(format!("~0{a}").as_bytes())));
        emit(format!("tnew {}", hex(format!("~{a}/").as_bytes())));
    }
    // around u16::MAX: "~01" / "~1" / a dangling '~' near the start and the end of a very long token; '~' before the first '/'
    for l in SCALE_64K {
        let a = "a".repeat(l);
        for t in [format!("~01{a}"), format!("{a}~01"), format!("{a}~1"), format!("~{a}/x"), format!("x~1y{a}"), format!("{a}~")] {
            emit(format!("tnew {}", hex(t.as_bytes())));
            emit(format!("tenc {}", hex(t.as_bytes())));
            emit(format!("tenc {}", hex(rfc_escape(&t).as_bytes())));
        }
    }
    for s in boundary_texts(tier) {
        emit(format!("tnew {}", hex(s.as_bytes())));
        emit(format!("tenc {}", hex(s.as_bytes())));
        emit(format!("tenc {}", hex(rfc_escape(&s).as_bytes())));
    }
    let n = if tier == "thorough" { 50_000 } else { 2_000 };
    for i in 0..n {
        let s = random_text(rng, if i % 50 == 0 { 4096 } else { 40 });
        emit(format!("tnew {}", hex(s.as_bytes())));
        emit(format!("tenc {}", hex(s.as_bytes())));
        // mostly-valid pre-encoded text: escape, then maybe damage one byte
        let mut e = rfc_escape(&s);
        if rng.chance(1, 2) && !e.is_empty() {
            let k = rng.below(e.len());
            if e.is_char_boundary(k) {
                e.insert_str(k, *rng.pick(&["~", "/", "~~", "~2"][..]));
            }
        }
        emit(format!("tenc {}", hex(e.as_bytes())));
    }
}

/// random text over Σ⁺ biased towards '~' runs, "~0"/"~1"/"~01", trailing '~'
pub fn random_text(rng: &mut Rng, max_syms: usize) -> String {
    let n = rng.below(max_syms + 1);
    let mut s = String::new();
    for _ in 0..n {
        match rng.below(10) {
            0 => s.push_str("~0"),
            1 => s.push_str("~1"),
            2 => s.push_str("~01"),
            3 => s.push('~'),
            // any ASCII byte (controls, DEL, '%', '"', '\\', digits 2-9 ...) and any Unicode scalar value
            4 => s.push(char::from(rng.below(128) as u8)),
            5 if rng.chance(1, 2) => {
                let c = loop {
                    let v = match rng.below(4) { 0 => rng.below(0x800), 1 => rng.below(0x10000), 2 => 0x10000 + rng.below(0x100000), _ => 0x80 + rng.below(0x80) };
                    if let Some(c) = char::from_u32(v as u32) { break c; }
                };
                s.push(c)
            }
            _ => s.push_str(*rng.pick(&SIGMA_PLUS[..])),
        }
    }
    if rng.chance(1, 10) {
        s.push('~');
    }
    s
}
