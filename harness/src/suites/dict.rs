//! Literal-guided cases (DESIGN 13.5): the check harvests the integer and string literals of /repo's CURRENT source and
//! passes them in VERIF_DICT_NUMS / VERIF_DICT_STRS; every suite then also runs inputs built around them -- texts whose
//! length is such a number, indices / bounds / counts equal to it, tokens and keys equal to such a string.  On the unchanged
//! tree the dictionary is nearly empty; a change that special-cases a magic length, index or key brings its own trigger.
use crate::oracles::rfc_escape;
use crate::util::hex;

pub fn numbers() -> Vec<u64> {
    std::env::var("VERIF_DICT_NUMS").ok().map(|s| s.split(',').filter_map(|x| x.trim().parse().ok()).collect()).unwrap_or_default()
}

pub fn strings() -> Vec<String> {
    std::env::var("VERIF_DICT_STRS")
        .ok()
        .map(|s| s.split(',').filter_map(|x| crate::util::unhex_str(x.trim())).collect())
        .unwrap_or_default()
}

/// numbers and their neighbours
fn around() -> Vec<u64> {
    let mut v = vec![];
    for n in numbers() {
        for d in [n.wrapping_sub(1), n, n.wrapping_add(1)] {
            if !v.contains(&d) {
                v.push(d);
            }
        }
    }
    v
}

/// texts whose length is a dictionary number (up to 3 MB), with a fragment at the start / end / middle
fn long_texts() -> Vec<String> {
    let mut v = vec![];
    for n in around() {
        if !(9..=3_000_000).contains(&n) {
            continue;
        }
        let n = n as usize;
        v.push("a".repeat(n));
        v.push(format!("~0{}", "a".repeat(n - 2)));
        v.push(format!("{}~", "a".repeat(n - 1)));
        v.push(format!("{}~1{}", "a".repeat(n / 2), "b".repeat(n - n / 2 - 2)));
    }
    v
}

pub fn gen(suite: &str, emit: &mut dyn FnMut(String)) {
    let nums = around();
    let strs = strings();
    if nums.is_empty() && strs.is_empty() {
        return;
    }
    let texts: Vec<String> = long_texts().into_iter().chain(strs.iter().cloned()).collect();
    match suite {
        "token" => {
            for s in &texts {
                emit(format!("tnew {}", hex(s.as_bytes())));
                emit(format!("tenc {}", hex(s.as_bytes())));
                emit(format!("tenc {}", hex(rfc_escape(s).as_bytes())));
            }
        }
        "parse" => {
            for s in &texts {
                for t in [s.clone(), format!("/{s}"), format!("/{}", rfc_escape(s))] {
                    for d in ["parse", "bufparse", "tryfromstring"] {
                        emit(format!("door {d} {}", hex(t.as_bytes())));
                    }
                }
            }
        }
        "tokens" => {
            for s in &texts {
                if s.len() <= 200_000 {
                    emit(format!("ftok {}", hex(s.as_bytes())));
                    emit(format!("acc {}", hex(format!("/x/{}/y", rfc_escape(s)).as_bytes())));
                }
            }
            for &n in &nums {
                if (2..=20_000).contains(&n) {
                    let p: String = (0..n).map(|_| "/a").collect();
                    emit(format!("acc {}", hex(p.as_bytes())));
                }
                emit(format!("fus {}", n as usize));
            }
        }
        "index" => {
            for &n in &nums {
                emit(format!("idx {}", hex(n.to_string().as_bytes())));
                for l in [0u64, 1, n.wrapping_sub(1), n, n.wrapping_add(1), u64::MAX] {
                    emit(format!("flen n{n} {l}"));
                }
                emit(format!("flen next {n}"));
            }
            for s in &strs {
                emit(format!("idx {}", hex(s.as_bytes())));
            }
        }
        "slice" => {
            let mut ptrs = vec!["/a/b~0/c".to_string(), "".to_string()];
            for &n in &nums {
                if (2..=20_000).contains(&n) {
                    ptrs.push((0..n).map(|_| "/a").collect());
                }
            }
            for s in &strs {
                ptrs.push(format!("/{}/k", rfc_escape(s)));
            }
            for p in &ptrs {
                let x = hex(p.as_bytes());
                for &n in &nums {
                    for op in ["get", "rf", "rt", "rti"] {
                        emit(format!("{op} {n} {x}"));
                    }
                    emit(format!("rr 0 {n} {x}"));
                    emit(format!("rr {n} {n} {x}"));
                    emit(format!("ri 0 {n} {x}"));
                    emit(format!("rb e{n} u {x}"));
                    emit(format!("rb u i{n} {x}"));
                    emit(format!("spat {n} {x}"));
                }
            }
        }
        "prefix" => {
            for s in &texts {
                if s.len() <= 200_000 {
                    let a = format!("/{}", rfc_escape(s));
                    let b = format!("{a}/k");
                    for (p, q) in [(&a, &a), (&b, &a), (&a, &b), (&b, &b)] {
                        emit(format!("pfx {} {}", hex(p.as_bytes()), hex(q.as_bytes())));
                    }
                }
            }
            for &n in &nums {
                if (2..=20_000).contains(&n) {
                    let p: String = (0..n).map(|_| "/a").collect();
                    let q: String = (0..n - 1).map(|_| "/a").collect();
                    emit(format!("pfx {} {}", hex(p.as_bytes()), hex(q.as_bytes())));
                    emit(format!("pfx {} {}", hex(p.as_bytes()), hex(p.as_bytes())));
                }
            }
        }
        "buf" => {
            for &n in &nums {
                emit(format!("buf {} rp:{n}:{} ob", hex(b"/a/b"), hex(b"w")));
                if (2..=5_000).contains(&n) {
                    let p: String = (0..n).map(|_| "/a").collect();
                    emit(format!("buf {} rp:{}:{} rp:{n}:{} ob of", hex(p.as_bytes()), n - 1, hex(b"w"), hex(b"z")));
                }
            }
            for s in &texts {
                if s.len() <= 200_000 {
                    emit(format!("buf {} pb:{} pf:{} of ob", hex(b"/k"), hex(s.as_bytes()), hex(s.as_bytes())));
                }
            }
        }
        "cmp" => {
            for s in &texts {
                if s.len() <= 200_000 {
                    let a = format!("/{}", rfc_escape(s));
                    let b = format!("{a}x");
                    for (p, q) in [(&a, &a), (&a, &b), (&b, &a)] {
                        emit(format!("cmp {} {}", hex(p.as_bytes()), hex(q.as_bytes())));
                    }
                }
            }
        }
        "conv" => {
            for s in &texts {
                emit(format!("conv {}", hex(format!("/{}", rfc_escape(s)).as_bytes())));
            }
            for &n in &nums {
                emit(format!("tint {n}"));
                emit(format!("tint -{n}"));
            }
        }
        "alloc" => {
            for s in &texts {
                emit(format!("alloc {} {}", hex(s.as_bytes()), hex(b"")));
                emit(format!("alloc {} {}", hex(format!("/{}/k", rfc_escape(s)).as_bytes()), hex(b"/")));
            }
        }
        "tree" | "hist" => {
            // array indices and object keys from the dictionary, on both backends
            let mut keys: Vec<String> = strs.clone();
            for &n in &nums {
                keys.push(n.to_string());
            }
            for be in ["json", "toml"] {
                for k in &keys {
                    let kx = hex(k.as_bytes());
                    let ke = rfc_escape(k);
                    let docs = [
                        format!("[ i1 i2 i3 ]"),
                        format!("{{ k{} [ i1 i2 ] k61 i7 }}", &kx[1..]),
                        format!("{{ k61 {{ k{} t }} }}", &kx[1..]),
                    ];
                    let ptrs = [format!("/{ke}"), format!("/{ke}/0"), format!("/a/{ke}"), format!("/{ke}/{ke}")];
                    for d in &docs {
                        for p in &ptrs {
                            let x = hex(p.as_bytes());
                            if suite == "tree" {
                                for o in ["R", "M", "D"] {
                                    emit(format!("tree {be} {d} {o} {x}"));
                                }
                                emit(format!("tree {be} {d} A {x} i9"));
                                emit(format!("tree {be} {d} W {x} i9"));
                            } else {
                                emit(format!("hist {be} {d} A {x} i9 ; R {x} ; D {x} ; N"));
                            }
                        }
                    }
                }
            }
        }
        _ => {}
    }
}
