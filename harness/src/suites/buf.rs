//! suite `buf`: histories of PointerBuf mutators against a deque of decoded strings  (C11, C01)
use crate::oracles::*;
use crate::util::*;
use jsonptr::{PointerBuf, Token};
use std::collections::VecDeque;

pub fn exec(op: &str, args: &[&str], out: &mut Out) -> Option<()> {
    if op != "buf" {
        return None;
    }
    let start = unhex_str(args.first()?)?;
    let mut buf = PointerBuf::parse(start.clone()).ok()?;
    let mut dq: VecDeque<String> = ref_tokens(&start).iter().map(|t| rfc_unescape(t)).collect();
    let mut res: Vec<String> = vec![];
    let hist = args[1..].join(" ");
    for (step, o) in args[1..].iter().enumerate() {
        let parts: Vec<&str> = o.split(':').collect();
        let before = buf.as_str().to_string();
        let ret: String = match (parts[0], parts.len()) {
            ("pf", 2) | ("pb", 2) => {
                let t = unhex_str(parts[1])?;
                if parts[0] == "pf" {
                    buf.push_front(t.as_str());
                    dq.push_front(t);
                } else {
                    buf.push_back(t.as_str());
                    dq.push_back(t);
                }
                "u".into()
            }
            ("pfe", 2) | ("pbe", 2) => {
                let e = unhex_str(parts[1])?;
                let t = Token::from_encoded(&e).ok()?;
                let d = t.decoded().to_string();
                if parts[0] == "pfe" {
                    buf.push_front(t);
                    dq.push_front(d);
                } else {
                    buf.push_back(t);
                    dq.push_back(d);
                }
                "u".into()
            }
            ("ap", 2) => {
                let q = unhex_str(parts[1])?;
                let qp = PointerBuf::parse(q.clone()).ok()?;
                buf.append(&qp);
                for t in ref_tokens(&q) {
                    dq.push_back(rfc_unescape(t));
                }
                "u".into()
            }
            ("of", 1) | ("ob", 1) => {
                let r = no_panic(|| if parts[0] == "of" { buf.pop_front() } else { buf.pop_back() });
                match r {
                    None => {
                        out.fail("C11", format!("step {step} ({o}) of history [{hist}] from {start:?} panicked"));
                        "panic".into()
                    }
                    Some(r) => {
                        let want = if parts[0] == "of" { dq.pop_front() } else { dq.pop_back() };
                        let got = r.as_ref().map(|t| t.decoded().to_string());
                        out.check(got == want, "C11", || format!("step {step} ({o}) of [{hist}] from {start:?} returned {got:?}, the deque gives {want:?}"));
                        if let Some(t) = &r {
                            out.check(rfc_tok(t.encoded().as_bytes()), "C01", || format!("pop returned a token holding invalid text {:?}", t.encoded()));
                        }
                        match r {
                            Some(t) => format!("s:{}", hex(t.encoded().as_bytes())),
                            None => "n".into(),
                        }
                    }
                }
            }
            ("cl", 1) => {
                buf.clear();
                dq.clear();
                "u".into()
            }
            ("rp", 3) => {
                let i: usize = parts[1].parse().ok()?;
                let t = unhex_str(parts[2])?;
                let count_before = dq.len();
                let r = no_panic(|| buf.replace(i, t.as_str()).map(|o| o.map(|t| t.into_owned())));
                match r {
                    None => {
                        out.fail("C11", format!("step {step} ({o}) of [{hist}] from {start:?} panicked"));
                        "panic".into()
                    }
                    Some(Ok(old)) => {
                        let want = if i < dq.len() { Some(std::mem::replace(&mut dq[i], t.clone())) } else { None };
                        out.check(i < count_before && old.as_ref().map(|t| t.decoded().to_string()) == want, "C11", || {
                            format!("step {step} ({o}) of [{hist}] from {start:?} returned Ok({:?}), the deque gives {want:?}", old.as_ref().map(|t| t.decoded().to_string()))
                        });
                        format!("ok:{}", opt(old, |t| hex(t.encoded().as_bytes())))
                    }
                    Some(Err(e)) => {
                        out.check(i >= count_before && e.index == i && e.count == count_before, "C11", || {
                            format!("step {step} ({o}) of [{hist}] from {start:?} returned {e:?}, expected index {i} count {count_before} (in bounds: {})", i < count_before)
                        });
                        out.check(buf.as_str() == before, "C11", || format!("failed replace changed the pointer from {before:?} to {:?}", buf.as_str()));
                        let _ = no_panic(|| format!("{e} {e:?}"));
                        format!("err:{}:{}", e.index, e.count)
                    }
                }
            }
            _ => return None,
        };
        let text = buf.as_str().to_string();
        // C11: the buffer equals from_tokens of the deque
        let expect: String = dq.iter().map(|t| format!("/{}", rfc_escape(t))).collect();
        out.check(text == expect, "C11", || format!("after step {step} ({o}) of [{hist}] from {start:?} the buffer is {text:?}, the deque spells {expect:?}"));
        let toks: Vec<String> = buf.tokens().map(|t| t.decoded().to_string()).collect();
        out.check(toks.iter().eq(dq.iter()), "C11", || format!("after step {step} ({o}) of [{hist}] tokens() = {toks:?}, deque = {dq:?}"));
        out.check(rfc_ptr(text.as_bytes()), "C01", || format!("after step {step} ({o}) of [{hist}] from {start:?} the buffer holds invalid text {text:?}"));
        res.push(format!("{}/{}", hex(text.as_bytes()), ret));
    }
    out.observed = res.join(" ");
    Some(())
}

fn ops() -> Vec<String> {
    let mut v = vec![];
    for t in ["", "~", "/", "é", "a"] {
        v.push(format!("pf:{}", hex(t.as_bytes())));
        v.push(format!("pb:{}", hex(t.as_bytes())));
    }
    v.push(format!("pfe:{}", hex(b"~01")));
    v.push(format!("pbe:{}", hex(b"~1~0")));
    v.push("of".into());
    v.push("ob".into());
    for p in ["", "/", "/a//~1"] {
        v.push(format!("ap:{}", hex(p.as_bytes())));
    }
    for i in [0usize, 1, usize::MAX] {
        for t in ["", "x/", "~"] {
            v.push(format!("rp:{i}:{}", hex(t.as_bytes())));
        }
    }
    v.push("cl".into());
    v
}

pub fn gen(tier: &str, rng: &mut Rng, emit: &mut dyn FnMut(String)) {
    let max = if tier == "thorough" { 4 } else { 3 };
    let ops = ops();
    let ops_ref: Vec<&str> = ops.iter().map(String::as_str).collect();
    for start in ["", "/", "/a/~0/"] {
        super::tokens::all_lists(&ops_ref, max, &mut |h| {
            if !h.is_empty() {
                emit(format!("buf {} {}", hex(start.as_bytes()), h.join(" ")));
            }
        });
    }
    // texts beyond the small scope pushed / replaced / popped at both ends, next to escaped neighbours
    for s in boundary_texts(tier) {
        let x = hex(s.as_bytes());
        emit(format!("buf {} pb:{x} pf:{x} of ob", hex(b"/~0/~1")));
        emit(format!("buf {} rp:1:{x} rp:2:{x} ob of of", hex(b"/a~1b/c~0/d")));
        emit(format!("buf {} pf:{x} rp:1:{} rp:2:{} ob ob", hex(b"/k/l"), hex(b"y"), hex(b"z")));
    }
    // every token length through push_front / push_back / pop (plain and with one escape)
    for l in sweep_lengths(tier) {
        let a = "a".repeat(l);
        emit(format!("buf {} pf:{} pb:{} of ob", hex(b"/k"), hex(a.as_bytes()), hex(a.as_bytes())));
        if l % 3 == 0 {
            emit(format!("buf {} pf:{} ob of", hex(b""), hex(format!("~{a}").as_bytes())));
        }
    }
    // a pointer whose text is longer than u16::MAX: replace / pop far behind that offset
    {
        let p: String = (0..9000).map(|i| format!("/member-{i:05}")).collect();
        for i in [0usize, 17, 4500, 5041, 5042, 8100, 8999, 9000] {
            emit(format!("buf {} rp:{i}:{} ob of", hex(p.as_bytes()), hex(b"w/~")));
        }
    }
    // replace at EVERY index of buffers a little longer than small inline tables (8, 16, 32 entries)
    for n in [7usize, 8, 9, 15, 16, 17, 18, 31, 32, 33, 34] {
        let p: String = (0..n).map(|i| format!("/k{i}")).collect();
        for i in 0..=n {
            emit(format!("buf {} rp:{i}:{} ob of", hex(p.as_bytes()), hex(b"w")));
        }
    }
    // word-at-a-time counting mistakes: neighbour bytes of '/' at every alignment; in-range, one-past and far out-of-range replace
    for (i, p) in swar_pointers().into_iter().enumerate() {
        if tier != "thorough" && i % 3 != 0 {
            continue;
        }
        let n = p.matches('/').count();
        for idx in [n - 1, n, n + 1, usize::MAX] {
            emit(format!("buf {} rp:{idx}:{} ob", hex(p.as_bytes()), hex(b"w")));
        }
        emit(format!("buf {} pf:{} rp:{n}:{} rp:{}:{}", hex(p.as_bytes()), hex(b"z"), hex(b"w"), n + 1, hex(b"w")));
    }
    for n in MANY {
        let p: String = (0..n).map(|i| format!("/t~0{}", i % 3)).collect();
        for i in [0, 1, n / 2, n - 1, n, usize::MAX] {
            emit(format!("buf {} rp:{i}:{} ob of", hex(p.as_bytes()), hex(b"w/~")));
        }
        emit(format!("buf {} {}", hex(p.as_bytes()), vec!["ob"; n.min(70) + 1].join(" ")));
        emit(format!("buf {} {}", hex(p.as_bytes()), vec!["of"; n.min(70) + 1].join(" ")));
    }
    let n = if tier == "thorough" { 200_000 } else { 5_000 };
    for it in 0..n {
        let long = it % 50 == 0;
        let k = if long { 100 + rng.below(400) } else { 1 + rng.below(60) };
        let start: String = (0..rng.below(4)).map(|_| format!("/{}", rfc_escape(&super::token::random_text(rng, 3)))).collect();
        let mut h: Vec<String> = vec![];
        for _ in 0..k {
            let tl = if long && rng.chance(1, 30) { 3000 } else if rng.chance(1, 40) { 300 } else { 4 };
            let o = match if long { rng.below(9) } else { rng.below(12) } {
                0 | 1 => format!("pf:{}", hex(super::token::random_text(rng, tl).as_bytes())),
                2 | 3 => format!("pb:{}", hex(super::token::random_text(rng, tl).as_bytes())),
                4 => format!("pbe:{}", hex(rfc_escape(&super::token::random_text(rng, 4)).as_bytes())),
                5 | 6 => "of".into(),
                7 | 8 => "ob".into(),
                9 => format!("ap:{}", hex((0..rng.below(3)).map(|_| format!("/{}", rfc_escape(&super::token::random_text(rng, 3)))).collect::<String>().as_bytes())),
                10 => format!("rp:{}:{}", if rng.chance(1, 8) { usize::MAX - rng.below(2) } else if long { rng.below(200) } else { rng.below(6) }, hex(super::token::random_text(rng, 4).as_bytes())),
                _ => if rng.chance(1, 6) { "cl".into() } else { "ob".into() },
            };
            h.push(o);
        }
        emit(format!("buf {} {}", hex(start.as_bytes()), h.join(" ")));
    }
}
