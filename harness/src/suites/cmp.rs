//! suite `cmp`: every hand-written PartialEq / PartialOrd impl, the derived ones, hashing and
//! map lookups through Borrow, against comparison of the texts  (C17)
use crate::util::*;
use jsonptr::{Pointer, PointerBuf};
use std::cmp::Ordering;
use std::collections::{BTreeMap, HashMap, HashSet};
use std::hash::{Hash, Hasher};

/// records the exact byte stream a value feeds to its hasher
#[derive(Default)]
struct Recorder(Vec<u8>);
impl Hasher for Recorder {
    fn finish(&self) -> u64 {
        0
    }
    fn write(&mut self, bytes: &[u8]) {
        self.0.extend_from_slice(bytes);
    }
}
fn stream<T: Hash + ?Sized>(t: &T) -> Vec<u8> {
    let mut r = Recorder::default();
    t.hash(&mut r);
    r.0
}

pub const EQ_IMPLS: usize = 19;
pub const ORD_IMPLS: usize = 17;

pub fn exec(op: &str, args: &[&str], out: &mut Out) -> Option<()> {
    if op != "cmp" {
        return None;
    }
    let a = unhex_str(args.first()?)?;
    let b = unhex_str(args.get(1)?)?;
    let pa = Pointer::parse(&a).ok()?;
    let pb = Pointer::parse(&b).ok()?;
    let (ba, bb): (PointerBuf, PointerBuf) = (pa.to_buf(), pb.to_buf());
    let (sa, sb): (&str, &str) = (&a, &b);
    let want_eq = a == b;
    let want = a.as_str().cmp(b.as_str());
    let mut bad: Vec<String> = vec![];

    // ---- PartialEq: (name, eq, ne) with the left operand built from a and the right from b
    macro_rules! eqs {
        ($( $name:literal : $l:ty , $r:ty => $lv:expr , $rv:expr ; )*) => {{
            let mut n = 0usize;
            $(
                let l: &$l = $lv; let r: &$r = $rv;
                let e = <$l as PartialEq<$r>>::eq(l, r);
                let ne = <$l as PartialEq<$r>>::ne(l, r);
                if e != want_eq || ne == want_eq { bad.push(format!("eq:{}", $name)); }
                n += 1;
            )*
            n
        }};
    }
    let n_eq = eqs! {
        "Pointer==&str": Pointer, &str => pa, &sb;
        "&Pointer==String": &Pointer, String => &pa, &b;
        "Pointer==str": Pointer, str => pa, sb;
        "&str==Pointer": &str, Pointer => &sa, pb;
        "String==Pointer": String, Pointer => &a, pb;
        "str==Pointer": str, Pointer => sa, pb;
        "Pointer==String": Pointer, String => pa, &b;
        "Pointer==PointerBuf": Pointer, PointerBuf => pa, &bb;
        "PointerBuf==Pointer": PointerBuf, Pointer => &ba, pb;
        "String==PointerBuf": String, PointerBuf => &a, &bb;
        "PointerBuf==String": PointerBuf, String => &ba, &b;
        "str==PointerBuf": str, PointerBuf => sa, &bb;
        "&str==PointerBuf": &str, PointerBuf => &sa, &bb;
        "&Pointer==PointerBuf": &Pointer, PointerBuf => &pa, &bb;
        "PointerBuf==&Pointer": PointerBuf, &Pointer => &ba, &pb;
        "PointerBuf==&str": PointerBuf, &str => &ba, &sb;
        "PointerBuf==str": PointerBuf, str => &ba, sb;
        "Pointer==Pointer(derived)": Pointer, Pointer => pa, pb;
        "PointerBuf==PointerBuf(derived)": PointerBuf, PointerBuf => &ba, &bb;
    };
    debug_assert_eq!(n_eq, EQ_IMPLS);

    // ---- PartialOrd: partial_cmp and the four operators
    macro_rules! ords {
        ($( $name:literal : $l:ty , $r:ty => $lv:expr , $rv:expr ; )*) => {{
            let mut n = 0usize;
            $(
                let l: &$l = $lv; let r: &$r = $rv;
                let c = <$l as PartialOrd<$r>>::partial_cmp(l, r);
                let ok = c == Some(want)
                    && <$l as PartialOrd<$r>>::lt(l, r) == (want == Ordering::Less)
                    && <$l as PartialOrd<$r>>::le(l, r) == (want != Ordering::Greater)
                    && <$l as PartialOrd<$r>>::gt(l, r) == (want == Ordering::Greater)
                    && <$l as PartialOrd<$r>>::ge(l, r) == (want != Ordering::Less);
                if !ok { bad.push(format!("ord:{}", $name)); }
                n += 1;
            )*
            n
        }};
    }
    let n_ord = ords! {
        "Pointer?PointerBuf": Pointer, PointerBuf => pa, &bb;
        "PointerBuf?Pointer": PointerBuf, Pointer => &ba, pb;
        "PointerBuf?&Pointer": PointerBuf, &Pointer => &ba, &pb;
        "String?Pointer": String, Pointer => &a, pb;
        "&Pointer?String": &Pointer, String => &pa, &b;
        "String?PointerBuf": String, PointerBuf => &a, &bb;
        "str?Pointer": str, Pointer => sa, pb;
        "str?PointerBuf": str, PointerBuf => sa, &bb;
        "&str?PointerBuf": &str, PointerBuf => &sa, &bb;
        "&str?Pointer": &str, Pointer => &sa, pb;
        "&Pointer?&str": &Pointer, &str => &pa, &sb;
        "Pointer?String": Pointer, String => pa, &b;
        "PointerBuf?&str": PointerBuf, &str => &ba, &sb;
        "&Pointer?PointerBuf": &Pointer, PointerBuf => &pa, &bb;
        "PointerBuf?String": PointerBuf, String => &ba, &b;
        "Pointer?Pointer(derived)": Pointer, Pointer => pa, pb;
        "PointerBuf?PointerBuf(derived)": PointerBuf, PointerBuf => &ba, &bb;
    };
    debug_assert_eq!(n_ord, ORD_IMPLS);
    if Ord::cmp(pa, pb) != want {
        bad.push("Ord:Pointer".into());
    }
    if Ord::cmp(&ba, &bb) != want {
        bad.push("Ord:PointerBuf".into());
    }

    // ---- hashing: Pointer, PointerBuf and the text feed identical byte streams
    let hs = stream(sa);
    if stream(pa) != hs || stream(&ba) != hs || stream(&a) != hs {
        bad.push("hash-stream".into());
    }
    // ---- maps keyed by PointerBuf queried with &Pointer / keyed with text ordering
    let mut hm: HashMap<PointerBuf, u8> = HashMap::new();
    hm.insert(ba.clone(), 1);
    if hm.get(pb).is_some() != want_eq || hm.get(pa) != Some(&1) {
        bad.push("HashMap-lookup".into());
    }
    let mut hset: HashSet<PointerBuf> = HashSet::new();
    hset.insert(ba.clone());
    if hset.contains(pb) != want_eq {
        bad.push("HashSet-lookup".into());
    }
    let mut bm: BTreeMap<PointerBuf, u8> = BTreeMap::new();
    bm.insert(ba.clone(), 1);
    bm.insert(bb.clone(), 2);
    if bm.get(pa).is_none() || bm.get(pb).is_none() {
        bad.push("BTreeMap-lookup".into());
    }
    let keys: Vec<&str> = bm.keys().map(|k| k.as_str()).collect();
    let mut sorted = keys.clone();
    sorted.sort();
    if keys != sorted || keys.len() != if want_eq { 1 } else { 2 } {
        bad.push("BTreeMap-order".into());
    }
    // Borrow / AsRef / Deref hand out the same text
    {
        use std::borrow::Borrow;
        let s1: &str = pa.borrow();
        let p1: &Pointer = ba.borrow();
        let s2: &str = pa.as_ref();
        let by: &[u8] = pa.as_ref();
        let p2: &Pointer = ba.as_ref();
        let p3: &Pointer = &ba;
        if s1 != a || p1.as_str() != a || s2 != a || by != a.as_bytes() || p2.as_str() != a || p3.as_str() != a {
            bad.push("Borrow/AsRef".into());
        }
    }
    // aliasing must not matter: b taken as a view of a's own buffer (same start address) compares like an equal text elsewhere
    if a.starts_with(b.as_str()) {
        if let Ok(pv) = Pointer::parse(&a[..b.len()]) {
            use std::hash::{Hash, Hasher};
            let h = |p: &Pointer| {
                let mut s = std::collections::hash_map::DefaultHasher::new();
                p.hash(&mut s);
                s.finish()
            };
            if (pa == pv) != want_eq || (pv == pa) != want_eq || pa.cmp(pv) != want || pv.cmp(pa) != want.reverse()
                || pa.partial_cmp(pv) != Some(want) || h(pv) != h(pb)
            {
                bad.push("aliased-view".into());
            }
        }
    }
    // wave 11 (C17-j): the same for the MIXED comparisons: b taken as a view of the PointerBuf's own buffer (what parent(), split_at(i).0,
    // strip_suffix hand out) must compare with that PointerBuf like an equal text elsewhere does
    if ba.as_str().starts_with(b.as_str()) {
        if let Ok(pv) = Pointer::parse(&ba.as_str()[..b.len()]) {
            let r: &Pointer = pv;
            if (*r == ba) != want_eq || (ba == *r) != want_eq || (r == ba) != want_eq || (ba == r) != want_eq {
                bad.push("aliased-view-of-buf".into());
            }
            if let Some(par) = ba.parent() {
                let same = par.as_str() == ba.as_str();
                if (*par == ba) != same || (ba == *par) != same || (par == ba) != same || (ba == par) != same {
                    bad.push("parent-vs-own-buf".into());
                }
            }
        }
    }
    let word = match want {
        Ordering::Less => "lt",
        Ordering::Equal => "eq",
        Ordering::Greater => "gt",
    };
    if bad.is_empty() {
        out.observed = format!("{} {word}", want_eq as u8);
    } else {
        out.observed = format!("{} {word} DISAGREE:{}", want_eq as u8, bad.join(","));
        out.fail("C17", format!("comparing {a:?} with {b:?}: these do not coincide with comparing the texts: {}", bad.join(", ")));
    }
    Some(())
}

pub fn gen(_tier: &str, rng: &mut Rng, emit: &mut dyn FnMut(String)) {
    let mut texts: Vec<String> = vec![
        "", "/", "//", "/a", "/b", "/a/b", "/a/c", "/a/b/c", "/ab", "/a~0", "/a~1", "/~0", "/~1", "/~01", "/é", "/e", "/z", "/a/", "/a//", "/0", "/1", "/10", "/2", "/-",
        "/A", "/a/b/c/d", "/a/b/c/e", "/b/b/c/d", "/a/b/d/d", "/\u{7f}", "/\u{80}", "/€", "/𝄞", "/ ", "/!", "/a b", "/a/ ", "/aa", "/aaa", "/aab", "/aba", "/baa",
    ]
    .into_iter()
    .map(String::from)
    .collect();
    // long texts: equal up to byte 127 / 128 / 129 / 255 / 256 and differing after, equal long texts, length-only differences
    let base: String = format!("/{}", "abcdefghij".repeat(60));
    for cut in [126usize, 127, 128, 129, 130, 255, 256, 257, 400] {
        texts.push(base[..cut].to_string());
        texts.push(format!("{}X", &base[..cut]));
        texts.push(format!("{}/y", &base[..cut]));
    }
    while texts.len() < 87 {
        let k = rng.below(4);
        texts.push((0..k).map(|_| format!("/{}", crate::oracles::rfc_escape(&super::token::random_text(rng, 3)))).collect());
    }
    for a in &texts {
        for b in &texts {
            emit(format!("cmp {} {}", hex(a.as_bytes()), hex(b.as_bytes())));
        }
    }
    // pair families beyond the small scope: every ASCII byte against the separator inside / at the end of a token,
    // and long texts differing only at / after a word or block boundary
    for c in 0u8..128 {
        let c = c as char;
        if c == '~' { continue; }
        for (a, b) in [(format!("/foo/bar"), format!("/foo{c}bar/x")), (format!("/foo{c}"), format!("/foo/")), (format!("/{c}"), format!("//")), (format!("/a/{c}b"), format!("/a{c}/b"))] {
            if crate::oracles::rfc_ptr(a.as_bytes()) && crate::oracles::rfc_ptr(b.as_bytes()) {
                emit(format!("cmp {} {}", hex(a.as_bytes()), hex(b.as_bytes())));
                emit(format!("cmp {} {}", hex(b.as_bytes()), hex(a.as_bytes())));
            }
        }
    }
    for (i, s) in boundary_texts(_tier).into_iter().enumerate() {
        if i % 3 != 0 || s.len() < 8 { continue; }
        let a = format!("/{}", crate::oracles::rfc_escape(&s));
        let mut b = a.clone();
        b.pop();
        let c = format!("{b}c");
        let d = format!("{a}/");
        for (x, y) in [(&a, &a), (&a, &b), (&a, &c), (&c, &a), (&a, &d)] {
            if crate::oracles::rfc_ptr(x.as_bytes()) && crate::oracles::rfc_ptr(y.as_bytes()) {
                emit(format!("cmp {} {}", hex(x.as_bytes()), hex(y.as_bytes())));
            }
        }
    }
}
