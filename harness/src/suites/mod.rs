pub mod buf;
pub mod index;
pub mod parse;
pub mod prefix;
pub mod slice;
pub mod token;
pub mod tokens;
