pub mod token;
