//! Shared plumbing: PRNG, hex, case output.
use std::fmt::Write as _;
use std::io::Write as _;

/// SplitMix64 — every random choice in the harness derives from one state.
pub struct Rng(pub u64);
impl Rng {
    pub fn new(seed: u64) -> Self {
        Rng(seed ^ 0x9E37_79B9_7F4A_7C15)
    }
    pub fn next(&mut self) -> u64 {
        self.0 = self.0.wrapping_add(0x9E37_79B9_7F4A_7C15);
        let mut z = self.0;
        z = (z ^ (z >> 30)).wrapping_mul(0xBF58_476D_1CE4_E5B9);
        z = (z ^ (z >> 27)).wrapping_mul(0x94D0_49BB_1331_11EB);
        z ^ (z >> 31)
    }
    pub fn below(&mut self, n: usize) -> usize {
        (self.next() % (n as u64)) as usize
    }
    pub fn chance(&mut self, num: u64, den: u64) -> bool {
        self.next() % den < num
    }
    pub fn pick<'a, T>(&mut self, xs: &'a [T]) -> &'a T {
        &xs[self.below(xs.len())]
    }
}

pub fn hex(s: &[u8]) -> String {
    let mut o = String::with_capacity(1 + 2 * s.len());
    o.push('x');
    for b in s {
        let _ = write!(o, "{b:02x}");
    }
    o
}

pub fn unhex(f: &str) -> Option<Vec<u8>> {
    let h = f.strip_prefix('x')?;
    if h.len() % 2 != 0 {
        return None;
    }
    let b = h.as_bytes();
    let mut v = Vec::with_capacity(h.len() / 2);
    for i in (0..b.len()).step_by(2) {
        let d = |c: u8| -> Option<u8> {
            match c {
                b'0'..=b'9' => Some(c - b'0'),
                b'a'..=b'f' => Some(c - b'a' + 10),
                _ => None,
            }
        };
        v.push(d(b[i])? * 16 + d(b[i + 1])?);
    }
    Some(v)
}

pub fn unhex_str(f: &str) -> Option<String> {
    String::from_utf8(unhex(f)?).ok()
}

/// Collects what one executed case produced.
pub struct Out {
    pub observed: String,
    pub oracle_failures: Vec<(String, String)>, // (properties "C01,C03", message)
}
impl Out {
    pub fn new() -> Self {
        Out { observed: String::new(), oracle_failures: vec![] }
    }
    /// record a failed property oracle (properties: comma-separated ids)
    pub fn fail(&mut self, props: &str, msg: impl Into<String>) {
        self.oracle_failures.push((props.to_string(), msg.into()));
    }
    pub fn check(&mut self, cond: bool, props: &str, msg: impl FnOnce() -> String) {
        if !cond {
            self.fail(props, msg());
        }
    }
}

/// buffered stdout writer for case/result lines
pub struct Sink {
    w: std::io::BufWriter<std::io::Stdout>,
    pub cases: u64,
}
impl Sink {
    pub fn new() -> Self {
        Sink { w: std::io::BufWriter::with_capacity(1 << 20, std::io::stdout()), cases: 0 }
    }
    pub fn line(&mut self, s: &str) {
        let _ = self.w.write_all(s.as_bytes());
        let _ = self.w.write_all(b"\n");
        self.cases += 1;
    }
    pub fn flush(&mut self) {
        let _ = self.w.flush();
    }
}

/// run `f`, turning a panic into `None`
pub fn no_panic<T>(f: impl FnOnce() -> T) -> Option<T> {
    std::panic::catch_unwind(std::panic::AssertUnwindSafe(f)).ok()
}

/// all strings over `alphabet` (each symbol a &str) up to `max_len` symbols
pub fn all_strings(alphabet: &[&str], max_len: usize, mut f: impl FnMut(&str)) {
    let mut idx: Vec<usize> = vec![];
    let mut s = String::new();
    loop {
        s.clear();
        for &i in &idx {
            s.push_str(alphabet[i]);
        }
        f(&s);
        // increment like an odometer, shortest first
        let mut k = idx.len();
        loop {
            if k == 0 {
                if idx.len() == max_len {
                    return;
                }
                idx = vec![0; idx.len() + 1];
                break;
            }
            k -= 1;
            if idx[k] + 1 < alphabet.len() {
                idx[k] += 1;
                for j in k + 1..idx.len() {
                    idx[j] = 0;
                }
                break;
            }
        }
    }
}

/// a borrowed result printed relative to the subject it must be a view of
pub fn view(base: &str, sub: &str) -> String {
    if sub.is_empty() {
        return "@e".into();
    }
    let b = base.as_ptr() as usize;
    let s = sub.as_ptr() as usize;
    if s >= b && s + sub.len() <= b + base.len() {
        format!("@{}+{}", s - b, sub.len())
    } else {
        "@copy".into()
    }
}

pub fn opt<T>(o: Option<T>, f: impl FnOnce(T) -> String) -> String {
    match o {
        Some(t) => f(t),
        None => "-".into(),
    }
}

/// the three integers of a diagnostic Label, read from its Debug output (it has no accessors)
pub fn label_numbers(dbg: &str) -> Option<(usize, usize)> {
    // the text field comes first and may itself contain "len: "; the numeric fields are last
    let off = &dbg[dbg.rfind("offset: ")? + 8..];
    let off: usize = off.split(|c: char| !c.is_ascii_digit()).next()?.parse().ok()?;
    let len = &dbg[dbg.rfind("len: ")? + 5..];
    let len: usize = len.split(|c: char| !c.is_ascii_digit()).next()?.parse().ok()?;
    Some((off, len))
}


/// Pointers for word-at-a-time ("SWAR") scanning mistakes: tokens that start with, consist of, or end in a byte that differs from a
/// structural byte ('/', '~', '0', '1', '-') by one bit or by one - the bytes the classic zero-byte tricks confuse with it - repeated
/// until the text spans several 8 / 32 / 64-byte blocks, at every alignment 0..8 of the first such token.  All valid pointers.
pub fn swar_pointers() -> Vec<String> {
    let neigh: [char; 18] = ['.', '-', '+', '\'', '?', 'o', '0', '\u{7f}', '|', 'z', 'v', 'n', '^', '>', '}', '1', '2', ' '];
    let mut v = Vec::new();
    for c in neigh {
        for pad in 0..8usize {
            let head: String = if pad == 0 { String::new() } else { format!("/{}", "a".repeat(pad - 1)) };
            v.push(format!("{head}{}", format!("/{c}xy").repeat(11)));
            v.push(format!("{head}{}", format!("/{c}").repeat(24)));
            v.push(format!("{head}{}", format!("/ab{c}").repeat(11)));
        }
    }
    v
}

/// Pairs of long pointers that differ in TWO (or four) places by the same byte change at the same offset modulo 8 / 16 / 32 inside
/// one block (fixed-width tokens, the same edit in tokens i and j): the differences a block comparison folded with xor cancels.
pub fn periodic_pairs() -> Vec<(String, String)> {
    let mut v = Vec::new();
    for width in [7usize, 15, 3] {
        let tok0 = format!("{}0", "k".repeat(width - 1));
        let tok1 = format!("{}1", "k".repeat(width - 1));
        let n = 96 / (width + 1) + 2;
        for pad in 0..8usize {
            let head: String = if pad == 0 { String::new() } else { format!("/{}", "p".repeat(pad - 1)) };
            let base: Vec<&str> = vec![tok0.as_str(); n];
            for i in 0..n.min(6) {
                for d in 1..=4usize {
                    let js: Vec<usize> = vec![i, i + d, i + 2 * d, i + 3 * d];
                    for take in [2usize, 4] {
                        if js[take - 1] >= n {
                            continue;
                        }
                        let mut q = base.clone();
                        for &j in &js[..take] {
                            q[j] = tok1.as_str();
                        }
                        let pb: String = format!("{head}{}", base.iter().map(|t| format!("/{t}")).collect::<String>());
                        let pq: String = format!("{head}{}", q.iter().map(|t| format!("/{t}")).collect::<String>());
                        v.push((pb, pq));
                    }
                }
            }
        }
    }
    v
}

/// Deterministic texts "beyond the small scope" (DESIGN 13.3): (1) every ASCII byte and a few multi-byte characters
/// directly after / before the bytes the crate treats specially, alone and inside / across an aligned 8-byte word;
/// (2) filler texts whose length is around a power of two with one interesting fragment placed at the start, the
/// middle, the end and around every word / block boundary (8, 16, ... 4096).
pub fn boundary_texts(tier: &str) -> Vec<String> {
    let mut v = Vec::new();
    let specials = ["/", "~", "~0", "~1"];
    let mut chars: Vec<String> = (0u8..128).map(|b| (b as char).to_string()).collect();
    for c in ["é", "€", "𝄞", "\u{80}", "\u{7ff}", "\u{800}", "\u{ffff}", "\u{10000}", "\u{10ffff}"] {
        chars.push(c.to_string());
    }
    for c in &chars {
        for s in specials {
            v.push(format!("{s}{c}"));
            v.push(format!("{c}{s}"));
            v.push(format!("/foo{s}{c}bar"));
            v.push(format!("/abcdefg{s}{c}x/y"));
        }
        v.push(format!("/foo/{c}bar"));
        v.push(format!("/a/{c}"));
    }
    let lens: &[usize] = if tier == "thorough" {
        &[7, 8, 9, 15, 16, 17, 31, 32, 33, 63, 64, 65, 127, 128, 129, 255, 256, 257, 300, 511, 512, 513, 1023, 1024, 1025, 4095, 4096, 4097]
    } else {
        &[8, 9, 16, 17, 32, 33, 64, 65, 128, 129, 255, 256, 257, 300, 512, 513, 1025, 4097]
    };
    let frags = ["~0", "~1", "~", "/", "~2", "é", "~01", ""];
    for &l in lens {
        for f in frags {
            let mut pos = vec![0usize, 1, l / 2, l.saturating_sub(f.len())];
            for k in [8usize, 16, 32, 64, 128, 256, 512, 1024, 4096] {
                if k <= l {
                    pos.push(k - 2);
                    pos.push(k - 1);
                    pos.push(k);
                }
            }
            pos.sort_unstable();
            pos.dedup();
            for p in pos {
                if p + f.len() > l {
                    continue;
                }
                let mut s = String::with_capacity(l + 4);
                for _ in 0..p {
                    s.push('a');
                }
                s.push_str(f);
                while s.len() < l {
                    s.push('b');
                }
                v.push(s);
            }
        }
    }
    v
}

/// token counts around powers of two / ten, for pointers with many tokens
pub const MANY: [usize; 14] = [9, 10, 11, 15, 16, 17, 63, 64, 65, 100, 255, 256, 257, 1000];


/// every length up to a little over 2048 (a threshold hidden in a computed constant such as `96 * size_of::<usize>()`
/// falls inside), as a plain filler text
pub fn sweep_lengths(tier: &str) -> std::ops::RangeInclusive<usize> {
    if tier == "thorough" { 0..=4200 } else { 0..=2100 }
}

/// sizes around u16::MAX (bytes of a token / a pointer, numbers of tokens / elements)
pub const SCALE_64K: [usize; 4] = [65_535, 65_536, 65_537, 70_001];
