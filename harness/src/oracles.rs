//! Independent reference implementations used by the property oracles.
//! Written from RFC 6901 / the property texts, not from the crate or the Coq model.

/// RFC 6901 reference-token recogniser: no raw '/', every '~' followed by '0' or '1'.
pub fn rfc_tok(e: &[u8]) -> bool {
    let mut i = 0;
    while i < e.len() {
        match e[i] {
            b'/' => return false,
            b'~' => {
                if i + 1 < e.len() && (e[i + 1] == b'0' || e[i + 1] == b'1') {
                    i += 2;
                    continue;
                }
                return false;
            }
            _ => {}
        }
        i += 1;
    }
    true
}

/// RFC 6901 json-pointer recogniser: *( "/" reference-token )
pub fn rfc_ptr(p: &[u8]) -> bool {
    if p.is_empty() {
        return true;
    }
    if p[0] != b'/' {
        return false;
    }
    p[1..].split(|&b| b == b'/').all(rfc_tok)
}

/// RFC 6901 §4: first "~1" -> "/", then "~0" -> "~" (in that order)
pub fn rfc_unescape(e: &str) -> String {
    e.replace("~1", "/").replace("~0", "~")
}

/// RFC 6901 §3: "~" -> "~0" first, then "/" -> "~1"
pub fn rfc_escape(s: &str) -> String {
    s.replace('~', "~0").replace('/', "~1")
}

/// reference tokenisation of a valid pointer text into encoded tokens
pub fn ref_tokens(p: &str) -> Vec<&str> {
    if p.is_empty() {
        vec![]
    } else {
        p[1..].split('/').collect()
    }
}

/// is `a` a prefix of some valid reference token?
pub fn tok_prefix_ok(a: &[u8]) -> bool {
    if rfc_tok(a) {
        return true;
    }
    let mut b = a.to_vec();
    b.push(b'0');
    rfc_tok(&b)
}
